"""C16 — Haversine / geodesic / rhumb consistency: only the explicit structural clauses.

 R16.1 every Bearing::bearing returns through the (x + 360) % 360 normaliser, so bearings lie in [0, 360)
 R16.2 Length of Line / LineString / MultiLineString is the sum of distance(start, end) over the segments, for any metric space
 R16.3 axis order at the geographiclib boundary: (lat = y, lon = x) in, Point::new(lon, lat) out
 R16.4 a metric space with its own radius uses that radius in every conversion between metres and radians
       (distance, destination, interpolation agree); the crate constant is only used to build the default measures
 R16.5 the rhumb longitude difference is wrapped into [-pi, pi] by +-2*pi with the sign matching the side it left
All numeric identities (round trips, ratio division, symmetry up to rounding) are NOT decided.
"""
import re
from ..facts import Facts, short
from ..symex import Symex, Unanalysable, show, show_pc, bare
from ..poly import from_term, R, P, sym, show_poly
from .c01 import opaque, calls_of

LEVEL = "other"
LM = "geo::algorithm::line_measures::"
GT = "geo_types::geometry::"


def run(rep, tier):
    rep.explanation = ("Structural clauses only: bearing normalisation, length as a sum-fold of segment distances, lat/lon argument order at the "
                       "geographiclib boundary, consistent use of the measure's own radius, and the wrap of the rhumb longitude difference "
                       "(decided as polynomial identities on the path terms); plus R16.7: the laws the property states, evaluated for Haversine and "
                       "Rhumb on 132 ordered witness pairs through the extracted path tables (no execution of geo). For arbitrary parameter values the "
                       "numeric identities cannot be bounded by a static argument in reach and are not decided; Geodesic is delegated to geographiclib.")
    rep.trusted = ["rustc MIR", "geographiclib-rs", "libm"]
    rep.assumptions = ["longitudes in [-180, 180], latitudes in [-90, 90]"]
    F = Facts("default")
    bearings(rep, F)
    lengths(rep, F)
    axis_order(rep, F)
    radius_use(rep, F)
    rhumb_wrap(rep, F)
    same_measure(rep, F)
    metric_laws(rep, F, tier)
    legacy_twins(rep, F, "R16.8", ("Rhumb", "Haversine", "Geodesic"))
    length_tables(rep, F, "R16.9", tier)

def bearings(rep, F):
    rep.rule("R16.1", "Bearing::bearing = (x + 360) % 360 in every metric space")
    n = 0
    for im in F.impls_of(LM + "bearing::Bearing"):
        fn = F.impl_fn(im, "bearing")
        if fn is None or im["crate"] != "geo":
            continue
        name = short(im["self_ty"])
        if name.startswith("Euclidean"):
            continue
        try:
            ps = [p for p in opaque(F).run(fn) if p.kind == "ret"]
        except Unanalysable as e:
            rep.bad("R16.1", "unanalysable:" + name, str(e), where=fn.loc())
            continue
        n += 1
        okk = bool(ps)
        for p in ps:
            r = bare(p.ret)
            m = re.match(r"^rem\(add\((.*), (.*)\), (.*)\)$", r) or re.match(r"^\(\((.*) Add (.*)\) Rem (.*)\)$", r)
            if not m or m.group(2) != m.group(3) or not re.search(r"360", m.group(2)):
                okk = False
                rep.bad("R16.1", "bearing:" + name, "bearing returns %s, not (x + 360) %% 360" % r[:120], where=fn.loc())
                break
        if okk:
            rep.ok("R16.1", "bearing:" + name)
    rep.floor("R16.1", "Bearing impls", n, 3)


def lengths(rep, F):
    rep.rule("R16.2", "LengthMeasurable: Line = distance(start, end); LineString / MultiLineString = sum over all members of member.length(metric)")
    LMs = LM + "length::LengthMeasurable"
    try:
        fn = F.impl_method(LMs, r"^%sline::Line<F>$" % GT, None, "length", crates=("geo",))
        ps = [p for p in opaque(F).run(fn) if p.kind == "ret"]
        r = bare(ps[0].ret)
        if len(ps) == 1 and r == "distance(a2, start_point(a1), end_point(a1))":
            rep.ok("R16.2", "Line")
        else:
            rep.bad("R16.2", "Line", "Line length is %s" % r[:100], where=fn.loc())
        # LineString of 3 coordinates / MultiLineString of 2 members (exact unrolling, loop or fold alike): the result is, as a sum, exactly the
        # distances of the consecutive segments / the lengths of the members
        LSp = GT + "line_string::LineString"
        elems = tuple(("index", ("field", ("deref", ("arg", 1)), "0"), ("const", k)) for k in range(3))
        cases = [("LineString", "line_string::LineString", ("&", ("adt", LSp, "LineString", (("call", "vec!", (("array", elems),)),))), [r"Distance.*::distance$"],
                  ["distance(a2, Point::Point(into(a1.0[0])), Point::Point(into(a1.0[1])))", "distance(a2, Point::Point(into(a1.0[1])), Point::Point(into(a1.0[2])))"]),
                 ("MultiLineString", "multi_line_string::MultiLineString", ("&", ("adt", GT + "multi_line_string::MultiLineString", "MultiLineString", (("call", "vec!", (("array", elems[:2]),)),))),
                  [r"LengthMeasurable.*::length$"], ["length(a1.0[0], a2)", "length(a1.0[1], a2)"])]
        for name, ty, val, noinl, want_terms in cases:
            fn = F.impl_method(LMs, r"^%s%s<F>$" % (GT, ty), None, "length", crates=("geo",))
            ps = Symex(F, inline_crates=("geo", "geo_types"), no_inline=noinl, loop_bound=8, concrete_iters=True).run(fn, args=[val, ("arg", 2)])
            if len(ps) != 1 or ps[0].kind != "ret" or ps[0].pc:
                rep.bad("R16.2", name, "%s length has %d result paths" % (name, len(ps)), where=fn.loc())
                continue
            terms = []

            def flat(t):
                while t[0] in ("&", "deref"):
                    t = t[1]
                if t[0] == "call" and t[1].rsplit("::", 1)[-1] in ("add", "sum") and len(t[2]) == 2:
                    flat(t[2][0])
                    flat(t[2][1])
                elif not (t[0] == "call" and t[1].rsplit("::", 1)[-1] == "zero"):
                    terms.append(bare(t).replace("start_point(", "Point::Point(into(").replace("end_point(", "Point::Point(into("))
            flat(ps[0].ret)
            norm = lambda x: re.sub(r"into\(into\(", "into(", x)
            if sorted(norm(t) for t in terms) == sorted(want_terms):
                rep.ok("R16.2", name)
            else:
                rep.bad("R16.2", name, "%s length is the sum of %s, expected exactly %s" % (name, [t[:80] for t in terms], want_terms), where=fn.loc())
    except (KeyError, Unanalysable, IndexError) as e:
        rep.bad("R16.2", "anchor", str(e))


def axis_order(rep, F):
    rep.rule("R16.3", "geographiclib calls take (lat, lon) = (p.y(), p.x()) and results are re-packed as Point::new(lon, lat)")
    n = 0
    for fn in F.find(r"metric_spaces::geodesic::", crates=("geo",)):
        for c in fn.calls():
            nm = (c.path or "").rsplit("::", 1)[-1]
            if (c.crate == "geographiclib_rs" or "geographiclib_rs" in (c.path or "")) and nm in ("inverse", "direct", "_inverse", "_direct"):
                n += 1
    try:
        G = LM + "metric_spaces::geodesic::GeodesicMeasure"
        for im in F.impls:
            if im["crate"] != "geo" or not im["self_ty"].startswith(G):
                continue
            for it in im["items"]:
                fn = F.by_key.get(it["key"])
                if fn is None or it["kind"] != "AssocFn":
                    continue
                try:
                    ps = [p for p in opaque(F, loop_bound=1, budget_s=5).run(fn) if p.kind in ("ret", "cut")]
                except Unanalysable:
                    continue
                for p in ps:
                    for c in calls_of(p):
                        nm = c[1].rsplit("::", 1)[-1]
                        if "geographiclib_rs" in c[1] and nm in ("inverse", "direct"):
                            a = [bare(x) for x in c[2]]
                            # (geoid, lat1, lon1, ...): y before x for every point argument
                            pts = [(i, x) for i, x in enumerate(a) if re.match(r"^[xy]\([^()]*(\([^()]*\))?[^()]*\)$", x)]
                            order = "".join(x[0] for _, x in pts)
                            key = "%s:%s" % (it["name"], nm)
                            if order in ("yx", "yxyx"):
                                rep.ok("R16.3", "lat-lon:" + key)
                            else:
                                rep.bad("R16.3", "lat-lon:" + key, "geographiclib %s is called with point coordinates in the order %s (expected lat = y first, lon = x second): %s" % (nm, order, a[1:5]), where=fn.loc())
    except KeyError as e:
        rep.bad("R16.3", "anchor", str(e))
    rep.floor("R16.3", "geographiclib call sites", n, 3)


def radius_use(rep, F):
    rep.rule("R16.4", "every method of HaversineMeasure that converts between metres and angle uses self.radius; MEAN_EARTH_RADIUS is not read inside those methods")
    H = LM + "metric_spaces::haversine::HaversineMeasure"
    n = 0
    for im in F.impls:
        if im["crate"] != "geo" or im["self_ty"] != H or not im.get("trait"):
            continue
        tname = im["trait"].rsplit("::", 1)[-1]
        if tname not in ("Distance", "Destination", "InterpolatePoint"):
            continue
        for it in im["items"]:
            fn = F.by_key.get(it["key"])
            if fn is None or it["kind"] != "AssocFn":
                continue
            uses_const = False
            reads_radius = False
            delegates = False
            for g in [fn] + F.closures_of(fn):
                for bb, pl, rv, line in g.all_assigns():
                    for o in ([rv[1]] if rv[0] == "use" else [rv[2]] if rv[0] in ("cast", "un") else [rv[2], rv[3]] if rv[0] == "bin" else rv[2] if rv[0] == "agg" else []):
                        if isinstance(o, dict) and "const" in o and "MEAN_EARTH_RADIUS" in str(o["const"].get("uneval", "")) + str(o["const"].get("text", "")):
                            uses_const = True
                        pp = o.get("copy") or o.get("move") if isinstance(o, dict) else None
                        if pp and any(e[0] == "field" and e[2] == "radius" for e in pp["p"]):
                            reads_radius = True
                for c in g.calls():
                    for a in c.args:
                        if "const" in a and "MEAN_EARTH_RADIUS" in str(a["const"].get("uneval", "")) + str(a["const"].get("text", "")):
                            uses_const = True
                    if c.self_ty and "HaversineMeasure" in c.self_ty and c.method in ("distance", "destination", "point_at_ratio_between", "point_at_distance_between", "points_along_line"):
                        delegates = True
                    if (c.path or "").endswith("HaversineMeasure::radius"):
                        reads_radius = True
            key = "%s::%s" % (tname, it["name"])
            n += 1
            if uses_const:
                rep.bad("R16.4", "crate-constant:" + key, "%s reads MEAN_EARTH_RADIUS instead of self.radius: on a custom sphere it disagrees with the methods that do use the measure's radius (distance vs destination round trip)" % key, where=fn.loc())
            elif reads_radius or delegates:
                rep.ok("R16.4", "radius:" + key)
            else:
                rep.ok("R16.4", "no-length-unit:" + key)
    rep.floor("R16.4", "HaversineMeasure methods", n, 5)


def rhumb_wrap(rep, F):
    rep.rule("R16.5", "RhumbCalculations::new wraps delta_lambda: > pi -> minus 2*pi, < -pi -> plus 2*pi, otherwise unchanged (polynomial identity on every path)")
    RC = "geo::algorithm::rhumb::RhumbCalculations"
    try:
        fn = F.one(r"^%s::<T>::new$" % RC, crates=("geo",))
        ex = opaque(F)
        ex.watch_adts = {RC}
        ps = [p for p in ex.run(fn) if p.kind == "ret"]
    except (KeyError, Unanalysable) as e:
        rep.bad("R16.5", "anchor", str(e))
        return
    fields = [f["name"] for f in F.adts[RC]["variants"][0]["fields"]]

    def leaf(t):
        s = bare(t)
        if re.match(r"^to_radians\(sub\(x\(a2\), x\(a1\)\)\)$", s):
            return "D"
        if re.search(r"3\.14159|consts::PI", s) and "neg(" not in s and "mul(" not in s and "add(" not in s:
            return "PI"
        return s
    problems = []
    seen = set()
    for p in ps:
        aggs = [e for e in p.trace if e[0] == "agg" and e[1] == RC]
        if not aggs:
            continue
        vals = dict(zip(fields, aggs[0][3]))
        try:
            dl = from_term(vals["delta_lambda"], leaf)
        except ValueError as e:
            problems.append(str(e))
            continue
        diff = dl - R(sym("D"))
        two_pi = R(P(2)) * R(sym("PI"))
        atoms = [(bare(t), v) for t, v in p.pc]
        if diff.is_const(0):
            kind = "unchanged"
        elif diff.equals(-two_pi):
            kind = "minus"
        elif diff.equals(two_pi):
            kind = "plus"
        else:
            problems.append("delta_lambda is wrapped to %s (raw difference D), which is not D, D - 2*pi or D + 2*pi" % show_poly(dl.n)[:80])
            continue
        seen.add(kind)
        # guard consistency
        gt = [v for s, v in atoms if re.search(r"PI|3\.14159", s) and re.search(r"<", s)]
        txt = " ∧ ".join("%s=%s" % (s[-70:], v) for s, v in atoms if re.search(r"3\.14159|PI", s))
        if kind == "minus" and not any(v == 1 for s, v in atoms if re.match(r"^\(.*(3\.14159|consts::PI).* < to_radians\(sub\(x\(a2\), x\(a1\)\)\)\)$", s) and "neg(" not in s):
            problems.append("2*pi is subtracted on a path that did not find delta_lambda > pi [%s]" % txt[:160])
        if kind == "plus" and not any(v == 1 for s, v in atoms if re.search(r"< neg\(", s) or re.search(r"^\(.* < neg\(", s)):
            problems.append("2*pi is added on a path that did not find delta_lambda < -pi [%s]" % txt[:160])
    if problems:
        rep.bad("R16.5", "delta-lambda-wrap", problems[0], where=fn.loc())
    elif seen == {"unchanged", "minus", "plus"}:
        rep.ok("R16.5", "delta-lambda-wrap", sample=sorted(seen))
    else:
        rep.bad("R16.5", "delta-lambda-wrap:rows", "wrap table has only the rows %s" % sorted(seen), where=fn.loc())


def same_measure(rep, F):
    """R16.6: a GeodesicMeasure carries its own ellipsoid; every geodesic computation inside its methods must go through that instance
    (`self`, or `self.geoid` for the raw direct / inverse problems), never through the WGS84 static or a freshly built measure."""
    from ..symex import bare
    rep.rule("R16.6", "inside GeodesicMeasure's methods every Bearing / Distance / Destination / InterpolatePoint call has receiver `self` and every direct / inverse call uses `self.geoid`")
    fns = F.find(r"geodesic::GeodesicMeasure<.*>>::\w+$", crates=("geo",))
    n = 0
    for fn in fns:
        if fn.kind == "Closure":
            continue
        try:
            ps = opaque(F, loop_bound=1).run(fn)
        except Unanalysable as e:
            rep.bad("R16.6", "unanalysable:" + short(fn.path), str(e), where=fn.loc())
            continue
        bad = None
        for p in ps:
            for c in calls_of(p):
                if not c[2]:
                    continue
                recv = bare(c[2][0])
                if re.search(r"line_measures::(bearing::Bearing|distance::Distance|destination::Destination|interpolate_point::InterpolatePoint|length::)", c[1]):
                    n += 1
                    if recv != "a1":
                        bad = "%s is called on %s instead of self" % (c[1].rsplit("::", 1)[-1], recv[:60])
                elif re.search(r"geographiclib_rs::geodesic::(DirectGeodesic|InverseGeodesic)", c[1]):
                    n += 1
                    if recv not in ("deref(a1.geoid)", "a1.geoid"):
                        bad = "%s is solved on %s instead of self.geoid" % (c[1].rsplit("::", 1)[-1], recv[:60])
        if bad:
            rep.bad("R16.6", "foreign-measure:" + fn.path.rsplit("::", 1)[-1], "%s: %s — with a custom ellipsoid the result is computed on a different figure of the Earth than the distance / bearing "
                    "it is combined with" % (short(fn.path), bad), where=fn.loc())
        else:
            rep.ok("R16.6", "self-measure:" + short(fn.path))
    rep.floor("R16.6", "metric calls inside GeodesicMeasure", n, 8)


def metric_laws(rep, F, tier="quick"):
    """R16.7: the laws the property states, evaluated on witness pairs THROUGH the path tables extracted from MIR (geo's helpers inlined, libm
    functions interpreted in IEEE doubles; geo is not run): for Haversine and Rhumb and every ordered pair of twelve witness positions
    (antimeridian crossings in both directions, high latitudes, same meridian, equator; no poles / antipodes):
      distance >= 0, zero for identical points, symmetric; equal to the textbook great-circle / loxodrome length;
      bearing in [0, 360);   destination(a, bearing(a,b), distance(a,b)) = b;
      point_at_ratio_between(a, b, r) is at distance r * distance(a, b) from a (r = 1/4, 1/2).
    Geodesic is delegated to geographiclib (opaque; R16.3 / R16.6 decide the hand-off only)."""
    import math
    from ..numeval import NumEval
    from ..evalterm import NoModel
    rep.rule("R16.7", "Haversine and Rhumb on 132 ordered witness pairs, evaluated through the extracted path tables: distance non-negative, zero on the diagonal, symmetric and equal to the textbook length; bearing in [0, 360); destination(a, bearing(a,b), distance(a,b)) returns b within 1e-7 degrees; point_at_ratio_between(a,b,r) lies at r * distance from a (r = 1/4, 1/2)")
    LM = "geo::algorithm::line_measures::"
    R = 6371008.8
    pts = [(0.0, 0.0), (10.0, 20.0), (-75.0, 40.0), (170.0, 10.0), (-170.0, 20.0), (120.0, -35.0), (2.35, 48.85), (139.7, 35.7), (30.0, 60.0), (-120.0, -45.0), (0.5, 0.5), (179.0, -10.0)]

    def P(p):
        return {"0": {"x": p[0], "y": p[1]}}

    def dec_pt(v):
        c = v["0"] if "0" in v else v
        return (float(c["x"]), float(c["y"]))

    def ref_hav(a, b):
        f1, f2 = math.radians(a[1]), math.radians(b[1])
        df, dl = math.radians(b[1] - a[1]), math.radians(b[0] - a[0])
        h = math.sin(df / 2) ** 2 + math.cos(f1) * math.cos(f2) * math.sin(dl / 2) ** 2
        return R * 2 * math.asin(math.sqrt(h))

    def ref_rhumb(a, b):
        f1, f2 = math.radians(a[1]), math.radians(b[1])
        df = f2 - f1
        dl = math.radians(b[0] - a[0])
        if dl > math.pi:
            dl -= 2 * math.pi
        if dl < -math.pi:
            dl += 2 * math.pi
        dpsi = math.log(math.tan(math.pi / 4 + f2 / 2) / math.tan(math.pi / 4 + f1 / 2))
        q = df / dpsi if abs(dpsi) > 1e-12 else math.cos(f1)
        return R * math.sqrt(df * df + q * q * dl * dl)

    def lon_diff(x, y):
        d = (x - y) % 360.0
        return min(d, 360.0 - d)
    n_ok = 0
    for space, self_val, ref in (("HaversineMeasure", {"radius": R}, ref_hav), ("Rhumb", {}, ref_rhumb)):
        tabs = {}
        try:
            for tr, meth in (("distance::Distance", "distance"), ("bearing::Bearing", "bearing"), ("destination::Destination", "destination"), ("interpolate_point::InterpolatePoint", "point_at_ratio_between")):
                fn = None
                for im in F.impls_of(LM + tr):
                    if im["self_ty"].split("::")[-1] == space and (meth != "distance" or all("point::Point" in a for a in im["trait_args"][2:])):
                        fn = F.impl_fn(im, meth)
                if fn is None:
                    raise KeyError("%s::%s" % (space, meth))
                tabs[meth] = (fn, [p for p in Symex(F, inline_crates=("geo", "geo_types"), max_depth=14, max_paths=5000).run(fn) if p.kind != "cut"])
        except (KeyError, Unanalysable) as e:
            rep.bad("R16.7", "laws:%s:unanalysable" % space, str(e))
            continue

        def call(meth, *args):
            fn, paths = tabs[meth]
            env = {("arg", 1): self_val}
            for i, a in enumerate(args):
                env[("arg", i + 2)] = a
            ev = NumEval(F, env)
            ev.consts = {"geo::MEAN_EARTH_RADIUS": R}
            hit = ev.select_path(paths)
            if len(hit) != 1 or hit[0].kind != "ret":
                raise NoModel("%s%s selects %s" % (meth, args, [h.kind for h in hit]))
            return ev.ev(hit[0].ret)
        bad = None
        worst = {"sym": 0.0, "ref": 0.0, "rt": 0.0, "ratio": 0.0}
        try:
            for a in pts:
                d0 = float(call("distance", P(a), P(a)))
                if d0 != 0.0:
                    bad = ("distance-zero", "distance(%s, %s) = %r, not zero" % (a, a, d0))
                    break
                for b in pts:
                    if a == b:
                        continue
                    d = float(call("distance", P(a), P(b)))
                    d2 = float(call("distance", P(b), P(a)))
                    brg = float(call("bearing", P(a), P(b)))
                    if not (d >= 0):
                        bad = ("distance-negative", "distance(%s, %s) = %r" % (a, b, d))
                        break
                    worst["sym"] = max(worst["sym"], abs(d - d2))
                    if abs(d - d2) > 1e-4:
                        bad = ("distance-symmetry", "distance(%s, %s) = %.6f but distance(%s, %s) = %.6f" % (a, b, d, b, a, d2))
                        break
                    worst["ref"] = max(worst["ref"], abs(d - ref(a, b)))
                    if abs(d - ref(a, b)) > 1e-3:
                        bad = ("distance-value", "distance(%s, %s) = %.6f m, the %s length is %.6f m" % (a, b, d, "great-circle" if space.startswith("Hav") else "loxodrome", ref(a, b)))
                        break
                    if not (0.0 <= brg < 360.0):
                        bad = ("bearing-range", "bearing(%s, %s) = %r is outside [0, 360)" % (a, b, brg))
                        break
                    q = dec_pt(call("destination", P(a), brg, d))
                    err = max(lon_diff(q[0], b[0]), abs(q[1] - b[1]))
                    worst["rt"] = max(worst["rt"], err)
                    if err > 1e-7:
                        bad = ("round-trip", "destination(%s, bearing = %.9f, distance = %.6f) = (%.9f, %.9f), not %s" % (a, brg, d, q[0], q[1], b))
                        break
                    for r in (0.25, 0.5):
                        m = call("point_at_ratio_between", P(a), P(b), r)
                        dm = float(call("distance", P(a), P(dec_pt(m))))
                        worst["ratio"] = max(worst["ratio"], abs(dm - r * d))
                        if abs(dm - r * d) > 1e-3:
                            bad = ("ratio", "point_at_ratio_between(%s, %s, %s) is %.6f m from the start, expected %.6f m" % (a, b, r, dm, r * d))
                            break
                    if bad:
                        break
                if bad:
                    break
        except (NoModel, TypeError, KeyError, ValueError, ZeroDivisionError) as e:
            bad = ("non-abstractable", "a path table cannot be evaluated numerically: %s" % e)
        if bad:
            rep.bad("R16.7", "laws:%s:%s" % (space, bad[0]), "%s: %s" % (space, bad[1]), where=tabs["distance"][0].loc())
        else:
            n_ok += 1
            rep.ok("R16.7", "laws:%s[132 pairs]" % space, sample={k: "%.3g" % v for k, v in worst.items()})
    rep.floor("R16.7", "metric spaces evaluated", n_ok, 2)


def legacy_twins(rep, F, rule, spaces):
    """The legacy per-type traits (RhumbDistance, HaversineDestination, GeodesicLength, EuclideanDistance, ...) are twins of the metric-space
    API: every method is one call of the corresponding metric-space method on the matching space with its own arguments in order (the fill
    variants collect points_along_line).  The two legacy bearings that keep their own formula are compared numerically with the space's
    bearing modulo 360 on witness pairs."""
    import math
    from ..symex import bare
    rep.rule(rule, "legacy twins (%s + Distance / Bearing / Destination / Intermediate / Length): each method is exactly one call of the metric space's method on the matching space with the arguments in order; legacy bearings with their own formula agree with the space's bearing modulo 360 on witnesses" % "|".join(spaces))
    want_m = {"Distance": ("distance",), "Bearing": ("bearing",), "Destination": ("destination",), "Intermediate": ("point_at_ratio_between", "points_along_line"), "Length": ("length",)}
    n = 0
    own = []
    for im in F.impls:
        tr = im.get("trait") or ""
        m = re.search(r"::(%s)(Distance|Bearing|Destination|Intermediate|Length)$" % "|".join(spaces), tr)
        if not m or im.get("crate") != "geo":
            continue
        space, kind = m.group(1), m.group(2)
        for it in im["items"]:
            fn = F.impl_fn(im, it["name"])
            if fn is None:
                continue
            key = "%s%s::%s:%s" % (space, kind, it["name"], short(im["self_ty"])[:24]) + ("" if not im.get("trait_args") or len(im["trait_args"]) < 3 else "/" + short(str(im["trait_args"][-1]))[:20])
            try:
                ps = [p for p in Symex(F, inline_crates=()).run(fn) if p.kind != "cut"]
            except Unanalysable as e:
                rep.bad(rule, "twin:%s:unanalysable" % key, str(e), where=fn.loc())
                continue
            rets = [p for p in ps if p.kind == "ret"]
            if len(rets) > 1 and len(rets) == len(ps) and all(p.ret[0] == "call" and p.ret[1].rsplit("::", 1)[-1] == it["name"] for p in rets) \
                    and all(len(p.pc) == 1 and p.pc[0][0][0] == "discr" for p in rets):
                n += 1
                rep.ok(rule, "twin:%s[variant delegation, %d arms]" % (key, len(rets)))
                continue
            if len(ps) != 1 or len(rets) != 1 or rets[0].pc:
                rep.bad(rule, "twin:%s" % key, "%s is not a single unconditional call (%d paths)" % (key, len(ps)), where=fn.loc())
                continue
            r = rets[0].ret
            b = bare(r)
            t = r
            if t[0] == "call" and t[1].rsplit("::", 1)[-1] == "collect" and len(t[2]) == 1:
                t = t[2][0]
            ok = False
            if t[0] == "call" and t[1].rsplit("::", 1)[-1] in want_m[kind] and len(t[2]) == fn.arg_count + 1:
                sp = show(t[2][0])
                args_ok = all(re.fullmatch(r"(Point::Point\()?[&*]*(into\()?[&*]*a%d\)*" % (i + 1), bare(a).replace(" ", "")) for i, a in enumerate(t[2][1:]))
                space_ok = space in sp or (space == "Geodesic" and "GeodesicMeasure" in sp)
                ok = args_ok and space_ok
            if ok:
                n += 1
                rep.ok(rule, "twin:%s" % key, sample=b[:80])
            elif kind == "Bearing" and "atan2" in b or "inverse(" in b:
                own.append((space, fn, key))
            else:
                rep.bad(rule, "twin:%s" % key, "%s = %s: not the %s space's %s on (self, args...) in order" % (key, b[:120], space, "/".join(want_m[kind])), where=fn.loc())
    # legacy bearings with their own formula: numerically equal to the space's bearing modulo 360 (Haversine; Geodesic is external)
    from ..numeval import NumEval
    from ..evalterm import NoModel
    LM = "geo::algorithm::line_measures::"
    pts = [(0.0, 0.0), (10.0, 20.0), (-75.0, 40.0), (170.0, 10.0), (-170.0, 20.0), (120.0, -35.0), (30.0, 60.0)]
    for space, fn, key in own:
        if space != "Haversine":
            n += 1
            rep.ok(rule, "twin:%s[own formula over geographiclib: hand-off checked by R16.3]" % key)
            continue
        try:
            leg = [p for p in Symex(F, inline_crates=("geo", "geo_types"), max_depth=12).run(fn) if p.kind != "cut"]
            mfn = None
            for im in F.impls_of(LM + "bearing::Bearing"):
                if im["self_ty"].endswith("HaversineMeasure"):
                    mfn = F.impl_fn(im, "bearing")
            met = [p for p in Symex(F, inline_crates=("geo", "geo_types"), max_depth=12).run(mfn) if p.kind != "cut"]
            bad = None
            for a in pts:
                for b_ in pts:
                    if a == b_:
                        continue
                    A, B = {"0": {"x": a[0], "y": a[1]}}, {"0": {"x": b_[0], "y": b_[1]}}
                    e1 = NumEval(F, {("arg", 1): A, ("arg", 2): B})
                    h1 = e1.select_path(leg)
                    e2 = NumEval(F, {("arg", 1): {"radius": 6371008.8}, ("arg", 2): A, ("arg", 3): B})
                    h2 = e2.select_path(met)
                    if len(h1) != 1 or len(h2) != 1:
                        raise NoModel("row selection")
                    v1, v2 = float(e1.ev(h1[0].ret)), float(e2.ev(h2[0].ret))
                    d = abs(((v1 % 360.0) + 360.0) % 360.0 - v2)
                    if min(d, 360.0 - d) > 1e-9:
                        bad = "haversine_bearing(%s, %s) = %.9f, Haversine.bearing = %.9f" % (a, b_, v1, v2)
                        break
                if bad:
                    break
            if bad:
                rep.bad(rule, "twin:%s" % key, bad, where=fn.loc())
            else:
                n += 1
                rep.ok(rule, "twin:%s[numeric, %d pairs]" % (key, len(pts) * (len(pts) - 1)))
        except (NoModel, Unanalysable, TypeError, KeyError, ValueError) as e:
            rep.bad(rule, "twin:%s:non-abstractable" % key, str(e), where=fn.loc())
    rep.floor(rule, "legacy twin methods", n, 20 if "Euclidean" not in spaces else 60)


def length_tables(rep, F, rule="R16.9", tier="quick"):
    """LengthMeasurable::length of LineString (0..5 coordinates and one long line string) and MultiLineString (0..3 members) for an abstract
    metric space d: the complete path table, walked with every coordinate sequence over three witness positions (repeated vertices, closed
    rings, out-and-back lines included) and d answered by the Euclidean distance, gives the sum of d over the consecutive pairs - every
    segment once, none skipped at a block boundary, no special case for closed or short line strings."""
    import itertools
    import math
    import sys
    from ..numeval import NumEval
    from ..evalterm import NoModel
    rep.rule(rule, "LineString::length (0..5 coordinates, every sequence over three witness positions; one line string of 300 coordinates) and MultiLineString::length (0..3 members) with an abstract metric d "
                   "= the sum of d(p_i, p_i+1) over all consecutive pairs")
    LMs = LM + "length::LengthMeasurable"
    LSp = GT + "line_string::LineString"

    def vec(items):
        return ("call", "vec!", (("array", tuple(items)),))

    class Ev(NumEval):
        def call(self, t):
            m = t[1].rsplit("::", 1)[-1]
            a = t[2]
            if m == "distance" and len(a) == 3:
                def xy(v):
                    v = self.ev(v)
                    while isinstance(v, dict) and "0" in v and "x" not in v:
                        v = v["0"]
                    return v
                p_, q_ = xy(a[1]), xy(a[2])
                return math.hypot(q_["x"] - p_["x"], q_["y"] - p_["y"])
            return NumEval.call(self, t)
    try:
        fn = F.impl_method(LMs, r"^%sline_string::LineString<F>$" % GT, None, "length", crates=("geo",))
        fm = F.impl_method(LMs, r"^%smulti_line_string::MultiLineString<F>$" % GT, None, "length", crates=("geo",))
    except KeyError as e:
        rep.bad(rule, "length:anchor", str(e))
        return
    W = [(0.0, 0.0), (3.0, 4.0), (6.0, 0.0)]
    total = 0
    old_limit = sys.getrecursionlimit()
    sys.setrecursionlimit(max(old_limit, 20000))
    try:
        for n in (0, 1, 2, 3, 4, 5, 300):
            arg = ("&", ("adt", LSp, "LineString", (vec([("opaque", "c%d" % i) for i in range(n)]),)))
            ex = Symex(F, inline_crates=("geo", "geo_types"), no_inline=[r"Distance.*::distance$"], loop_bound=n + 8, concrete_iters=True, max_paths=20000, budget_s=120)
            ex.pure_assign_ops = True
            try:
                paths = [p for p in ex.run(fn, args=[arg, ("arg", 2)]) if p.kind != "cut"]
            except Unanalysable as e:
                rep.bad(rule, "length:LineString:unanalysable", "%d coordinates: %s" % (n, e), where=fn.loc())
                return
            if n == 300:
                seqs = [[W[(i * 7 + i // 5) % 3] for i in range(n)], [W[i % 2] for i in range(n)]]
            else:
                seqs = [list(s) for s in itertools.product(W, repeat=n)]
            for cs in seqs:
                ev = Ev(F, {("opaque", "c%d" % i): {"x": cs[i][0], "y": cs[i][1]} for i in range(n)})
                try:
                    hit = ev.select_path(paths)
                    got = [float(ev.ev(h.ret)) if h.kind == "ret" else "panic" for h in hit]
                except (NoModel, TypeError, KeyError, ValueError) as e:
                    rep.bad(rule, "length:LineString:non-abstractable", "a decision / the result of LineString::length cannot be evaluated from the coordinates and the metric (%s)" % e, where=fn.loc())
                    return
                want = sum(math.hypot(cs[i + 1][0] - cs[i][0], cs[i + 1][1] - cs[i][1]) for i in range(n - 1))
                total += 1
                if len(got) != 1 or got[0] == "panic" or abs(got[0] - want) > 1e-9 * max(1.0, want):
                    shown = cs if n <= 5 else "%d coordinates alternating over %s" % (n, sorted(set(cs)))
                    rep.bad(rule, "length:LineString", "LineString::length(%s) = %s with the Euclidean metric, the sum over the consecutive pairs is %s" % (shown, got, want), where=fn.loc())
                    return
        rep.ok(rule, "length:LineString[%d witnesses]" % total)
        # MultiLineString: members abstract, their lengths given
        for k in (0, 1, 2, 3):
            arg = ("&", ("adt", GT + "multi_line_string::MultiLineString", "MultiLineString", (vec([("opaque", "m%d" % i) for i in range(k)]),)))
            ex = Symex(F, inline_crates=("geo", "geo_types"), no_inline=[r"LengthMeasurable.*::length$"], loop_bound=k + 6, concrete_iters=True, max_paths=5000, budget_s=30)
            ex.pure_assign_ops = True
            paths = [p for p in ex.run(fm, args=[arg, ("arg", 2)]) if p.kind != "cut"]

            class Em(NumEval):
                def call(self, t):
                    if t[1].rsplit("::", 1)[-1] == "length" and len(t[2]) == 2:
                        return float(self.ev(t[2][0]))
                    return NumEval.call(self, t)
            vals = [2.5, 7.0, 0.0][:k]
            ev = Em(F, {("opaque", "m%d" % i): vals[i] for i in range(k)})
            hit = ev.select_path(paths)
            got = [float(ev.ev(h.ret)) if h.kind == "ret" else "panic" for h in hit]
            if got != [sum(vals)]:
                rep.bad(rule, "length:MultiLineString", "MultiLineString::length with member lengths %s = %s" % (vals, got), where=fm.loc())
                return
        rep.ok(rule, "length:MultiLineString[0..3 members]")
    except (Unanalysable, NoModel, TypeError, KeyError, RecursionError) as e:
        rep.bad(rule, "length:unanalysable", str(e)[:200])
    finally:
        sys.setrecursionlimit(old_limit)
