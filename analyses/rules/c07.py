"""C07 — Euclidean distance is the true minimum distance (structural clauses).

 R7.1 dispatch: every ordered pair resolves to flip / delegate(conversion) / Geometry match / min-fold over members, or to one of
      the enumerated kernels; the graph is well founded.  Hence symmetry and independence of typing/wrapping by construction.
 R7.2 zero shortcut: every kernel with a 1- or 2-dimensional operand returns the literal zero exactly under the exact
      `intersects` of the two operands, which is decided before any measuring
 R7.3 containment branch (Polygon x Polygon, LineString x Polygon): hole distances are used only when the exterior ring
      contains a vertex of the other operand; the exterior distance only when containment was tested false on both sides
 R7.4 line_segment_distance clamp table
Not decided: that the R-tree vertex-segment minimum is the true minimum; rounding.
"""
import re
from ..facts import Facts, short
from ..symex import Symex, Unanalysable, show, show_pc
from ..dispatch import Dispatch, Lam
from ..roots_gen import TYPES

LEVEL = "other"
DIST = "geo::algorithm::line_measures::distance::Distance"
KERNELS = {("Point", "Line"), ("Point", "LineString"), ("Point", "Polygon"), ("Line", "Line"), ("Line", "Polygon"),
           ("LineString", "LineString"), ("LineString", "Polygon"), ("Polygon", "Polygon")}
NOINL = [r"::to_polygon$", r"::intersects$", r"nearest_neighbour_distance$", r"coord_pos_relative_to_ring$", r"line_segment_distance$",
         r"line_euclidean_length$", r"line_string_contains_point$", r"point_contains_point$"]
CONV = re.compile(r"^(to_polygon\(\)|\.0|from\(\)|into\(\)|Point\{\})$")


def run(rep, tier):
    rep.explanation = ("Dispatch classes of all Euclidean Distance instances (resolved by rustc), min-fold shape of the container impls, zero "
                       "shortcut guarded by the exact intersects predicate, containment-branch table, clamp table of the point-segment distance. "
                       "Minimality over the R-tree candidates and rounding are not decided.")
    rep.trusted = ["rustc trait resolution", "Intersects (C02/C03)", "rstar nearest-neighbour queries (dependency)"]
    rep.assumptions = ["valid geometries"]
    F = Facts("default")
    D = Dispatch(F, DIST, "distance", "root_distance", extra_no_inline=NOINL)
    dispatch(rep, F, D)
    kernels(rep, F, D)
    clamp(rep, F)
    nn_coverage(rep, F)
    line_line(rep, F)
    point_kernel(rep, F)
    small_pair_tables(rep, F)
    contains_point_table(rep, F)
    shape_pair_tables(rep, F)
    # the zero shortcut of the Line / LineString / Polygon kernels is Line∩Line, also for zero-length segments (repeated vertices): table shared with C11
    from . import c11 as _c11
    _c11.agreement(rep, F, rule="R7.14")
    # the legacy EuclideanDistance / EuclideanLength traits are twins of Euclidean.distance / length (rule shared with C16)
    from . import c16
    c16.legacy_twins(rep, F, "R7.11", ("Euclidean",))
    # the zero shortcut and the containment branch of the polygon kernels stand on the exact point location of C02 (shared tables)
    from . import c02_kernels
    c02_kernels.run(rep, F, tier, only={"polygon-composition", "ring-step"}, rule="R7.12")
    from . import gt_tables
    gt_tables.run(rep, F, "R7.10", select={"line_euclidean_length", "line_segment_distance", "point_line_euclidean_distance", "Line::dx", "Line::dy"})


def dispatch(rep, F, D):
    rep.rule("R7.1", "every Distance pair is flip / delegate / Geometry match / min-fold(init max_value, body min(acc, distance(member, other))) or an enumerated kernel; flips are well founded")
    cls = {}
    for a in TYPES:
        for b in TYPES:
            inst, fn = D.impl_instance(a, b)
            cls[(a, b)] = (D.summarise(inst, fn), fn) if fn is not None else None
    n = sum(1 for v in cls.values() if v)
    rep.floor("R7.1", "implemented Distance pairs", n, 121)
    counts = {}
    for (a, b), v in sorted(cls.items()):
        if v is None:
            continue
        s, fn = v
        key = "%s-%s" % (a, b)
        d = s.detail if isinstance(s.detail, dict) else {}
        counts[s.cls] = counts.get(s.cls, 0) + 1
        if s.cls == "flip":
            rv = cls.get((b, a))
            if rv is None or rv[0].cls == "flip":
                rep.bad("R7.1", "flip-cycle:" + key, "flips to the reverse pair which %s" % ("flips back: infinite recursion" if rv else "does not exist"), where=fn.loc())
            else:
                rep.ok("R7.1", "flip:" + key)
        elif s.cls == "delegate":
            bad = [cv for cv in list(d.get("conv_a") or ()) + list(d.get("conv_b") or ()) if not CONV.match(cv)]
            if bad:
                rep.bad("R7.1", "delegate:" + key, "operand converted by `%s`" % bad[0], where=fn.loc())
            else:
                rep.ok("R7.1", "delegate:" + key)
        elif s.cls == "match":
            nvar = len(F.adts["geo_types::geometry::Geometry"]["variants"])
            if d.get("arms") == nvar:
                rep.ok("R7.1", "match:" + key)
            else:
                rep.bad("R7.1", "match:" + key, "Geometry match covers %s of %d variants" % (d.get("arms"), nvar), where=fn.loc())
        elif s.cls == "fold" and d.get("source") and d["source"].get("of"):
            body = d.get("body") or []
            ret = show(s.paths[0].ret) if s.paths else ""
            ok = d.get("kind") == "fold" and "max_value()" in ret and len(body) == 1 and re.match(r"^min\(bound\(0\), distance\(", body[0].get("term", "")) and "bound(1)" in body[0].get("term", "")
            if ok:
                rep.ok("R7.1", "min-fold:" + key, sample={"pair": key, "body": body[0]["term"][:80]})
            else:
                rep.bad("R7.1", "fold:" + key, "container distance is not fold(max_value, |acc, m| acc.min(distance(m, other))): kind %s, body %s" % (d.get("kind"), [x.get("term") for x in body][:1]), where=fn.loc())
        else:
            if (a, b) in KERNELS:
                rep.ok("R7.1", "kernel:" + key)
            else:
                rep.bad("R7.1", "unknown-kernel:" + key, "distance(%s, %s) is hand-written logic that is not one of the %d kernels checked on the pinned tree (class %s)" % (a, b, len(KERNELS), s.cls), where=fn.loc())
    rep.info["distance_classes"] = counts


def kernels(rep, F, D):
    rep.rule("R7.2", "a kernel returns the literal zero exactly on the paths where the exact intersects(a, b) of its two operands is true, and that test comes first")
    rep.rule("R7.3", "hole distances only under ring_contains_coord(exterior, first vertex of the other operand); exterior distance only after containment was tested false (or impossible) on both sides")
    for (a, b) in sorted(KERNELS):
        inst, fn = D.impl_instance(a, b)
        if fn is None:
            rep.bad("R7.2", "missing:%s-%s" % (a, b), "kernel pair not implemented")
            continue
        s = D.summarise(inst, fn)
        paths = s.paths or []
        key = "%s-%s" % (a, b)
        if a == "Point" and b in ("Line",):
            continue       # distance to a single segment: no shortcut needed (clamp table R7.4)
        zero_bad = None
        nonzero_bad = None
        first_bad = None
        for p in paths:
            if p.kind != "ret":
                continue
            atoms = [(show(t), v) for t, v in p.pc]
            inter = [(s_, v) for s_, v in atoms if re.search(r"intersects\(&?\*?a2.*a3|intersects\(&?\*?a3.*a2", s_) and "bounding" not in s_]
            is_zero = show(p.ret) in ("zero()", "0.0", "0")
            empty = any(re.search(r"is_empty\(", s_) and v == 1 for s_, v in atoms)
            if empty:
                continue       # an empty operand: the distance is zero by convention
            if is_zero:
                if not any(v == 1 for _, v in inter):
                    zero_bad = "returns exactly zero on the path [%s] without intersects(a, b) being true" % show_pc(p.pc)[:200]
            else:
                if any(v == 1 for _, v in inter):
                    nonzero_bad = "measures a distance although intersects(a, b) is true"
                if not inter:
                    nonzero_bad = nonzero_bad or "measures a distance on a path that never asked intersects(a, b): [%s]" % show_pc(p.pc)[:160]
            if atoms and inter and atoms[0][0] != inter[0][0] and not re.search(r"is_empty", atoms[0][0]):
                first_bad = "the intersects test is not the first decision (first: %s)" % atoms[0][0][:80]
        for k2, msg in (("zero-without-intersects", zero_bad), ("distance-without-test", nonzero_bad), ("guard-order", first_bad)):
            if msg:
                rep.bad("R7.2", "%s:%s" % (k2, key), "distance(%s, %s) %s" % (a, b, msg), where=fn.loc())
        if not (zero_bad or nonzero_bad or first_bad):
            rep.ok("R7.2", "zero-iff-intersects:" + key)
        if b == "Polygon" and a in ("Polygon", "LineString"):
            containment(rep, key, a, paths, fn)


def _calls_named(t, name, out=None, depth=0):
    out = [] if out is None else out
    if isinstance(t, tuple) and depth < 80:
        if t and t[0] == "call" and isinstance(t[1], str) and t[1].rsplit("::", 1)[-1] == name:
            out.append(t)
        for x in t:
            if isinstance(x, tuple):
                _calls_named(x, name, out, depth + 1)
    return out


def containment(rep, key, a, paths, fn):
    problems = []
    kinds = set()
    for p in paths:
        if p.kind != "ret":
            continue
        r = show(p.ret)
        if r in ("zero()",):
            continue
        atoms = {}
        for t, v in p.pc:
            s = show(t)
            m = re.search(r"ring_contains_coord\(&\*a(\d)\.exterior", s)
            if m:
                atoms["contains%s" % m.group(1)] = v
            # the helper inlined: the position of the other operand's first vertex relative to the exterior ring of operand k is Inside
            if "coord_pos_relative_to_ring(" in s:
                call_s = s.split("coord_pos_relative_to_ring(", 1)[1]
                rings = re.findall(r"a(\d)\.exterior(?!\.0\[)|exterior\(&?\*?a(\d)\)(?!\.0\[)", call_s)
                ks = [x[0] or x[1] for x in rings]
                if ks and "interiors" not in call_s[:200]:
                    k_ = ks[-1]          # the ring is the second argument
                    if t[0] == "discr":
                        atoms["contains%s" % k_] = 1 if v == 1 else 0
                    elif "CoordPos::Inside" in s:
                        atoms["contains%s" % k_] = v
            m = re.search(r"is_empty\(&\*a(\d)\.interiors\)", s)
            if m:
                atoms["noholes%s" % m.group(1)] = v
        holes = re.findall(r"a(\d)\.interiors", r)
        if holes or r == "max_value()":
            # measuring to the holes of polygon k
            ks = set(holes)
            if not ks:
                # empty hole list after a containment test: fine if some containment atom is true
                ks = {k[-1] for k, v in atoms.items() if k.startswith("contains") and v == 1}
            for k in ks:
                kinds.add("holes-of-a%s" % k)
                # what is measured against the holes of operand k must be the OTHER operand (its exterior / itself), never operand k's own exterior
                other = "3" if k == "2" else "2"
                for c in _calls_named(p.ret, "nearest_neighbour_distance"):
                    args = [show(x) for x in c[2]]
                    hole_args = [x for x in args if re.search(r"a%s\.interiors|interiors\(&?\*?a%s" % (k, k), x)]
                    rest = [x for x in args if x not in hole_args]
                    if hole_args and rest and not any(re.search(r"\ba%s\b" % other, x) for x in rest):
                        problems.append("inside a hole of operand a%s the distance is measured between that hole and %s, not the other operand a%s" % (k, rest[0][:80], other))
                if atoms.get("contains%s" % k) != 1:
                    problems.append("hole distances of operand a%s are used on a path where its exterior was not found to contain the other operand [%s]" % (k, show_pc(p.pc)[:160]))
        elif "nearest_neighbour_distance" in r or "distance" in r:
            kinds.add("ext-ext")
            sides = ["2", "3"] if a == "Polygon" else ["3"]
            for k in sides:
                excluded = atoms.get("noholes%s" % k) == 1 or atoms.get("contains%s" % k) == 0
                if not excluded:
                    problems.append("the exterior-to-exterior distance is returned on a path that did not rule out that operand a%s (with holes) contains the other one [%s]" % (k, show_pc(p.pc)[:200]))
    if problems:
        rep.bad("R7.3", "containment:" + key, problems[0], where=fn.loc())
    elif "ext-ext" in kinds and any(k.startswith("holes") for k in kinds):
        rep.ok("R7.3", "containment:%s%s" % (key, sorted(kinds)))
    else:
        rep.bad("R7.3", "containment:%s:rows" % key, "containment table incomplete: %s" % sorted(kinds), where=fn.loc())


def clamp(rep, F):
    rep.rule("R7.4", "line_segment_distance: degenerate segment -> distance to the point; projection parameter r <= 0 -> start, r >= 1 -> end, else perpendicular distance")
    try:
        fn = F.one(r"^geo_types::private_utils::line_segment_distance$", crates=("geo_types",))
        paths = [p for p in Symex(F, no_inline=[r"line_euclidean_length$"]).run(fn) if p.kind == "ret"]
    except (KeyError, Unanalysable) as e:
        rep.bad("R7.4", "anchor", str(e))
        return
    rows = {}
    for p in paths:
        atoms = [(show(t), v) for t, v in p.pc]
        r = show(p.ret)
        deg = [v for s, v in atoms if re.search(r"into\(a2\).*==.*into\(a3\)|into\(a2\)\.x == into\(a3\)\.x", s)]
        key = []
        for s, v in atoms:
            if "<= zero()" in s:
                key.append(("r<=0", v))
            elif re.search(r"one\(\) <=", s) or ">= one()" in s:
                key.append(("r>=1", v))
        r2 = re.sub(r"into\(|\)", "", r)
        if re.match(r"line_euclidean_length\(Line::Line\(a1, a2$", r2):
            out = "to-start"
        elif re.match(r"line_euclidean_length\(Line::Line\(a1, a3$", r2):
            out = "to-end"
        elif "hypot" in r and "abs" in r:
            out = "perpendicular"
        else:
            out = r[:60]
        rows[(tuple(key), "degenerate" if deg and all(v == 1 for v in deg) and not key else "")] = out
    want = {((("r<=0", 1),), ""): "to-start", ((("r<=0", 0), ("r>=1", 1)), ""): "to-end", ((("r<=0", 0), ("r>=1", 0)), ""): "perpendicular"}
    ok = all(rows.get(k) == v for k, v in want.items()) and rows.get(((), "degenerate")) == "to-start"
    if ok:
        rep.ok("R7.4", "clamp-table", sample={str(k): v for k, v in rows.items()})
    else:
        rep.bad("R7.4", "clamp-table", "clamp table is %s" % {str(k): v for k, v in rows.items()}, where=fn.loc())


def nn_coverage(rep, F):
    """R7.5 on line strings of 3 and 2 coordinates (exact unrolling, loop or fold alike): the result is the minimum over exactly these terms: for
    every vertex p of one operand, distance(nearest segment among ALL segments of the other operand, p) — both directions."""
    from ..symex import bare
    rep.rule("R7.5", "nearest_neighbour_distance (3 and 2 coordinates, exact unrolling): min over every vertex of each operand of the distance to its nearest segment in a tree built from every segment of the other operand")
    try:
        fn = F.one(r"euclidean::distance::nearest_neighbour_distance$", crates=("geo",))
        LS = "geo_types::geometry::line_string::LineString"

        def ls(arg, n):
            return ("&", ("adt", LS, "LineString", (("call", "vec!", (("array", tuple(("index", ("field", ("deref", ("arg", arg)), "0"), ("const", k)) for k in range(n))),)),)))
        ex = Symex(F, inline_crates=("geo", "geo_types"), no_inline=[r"RTree", r"CachedEnvelope", r"Distance.*::distance$"], loop_bound=10, concrete_iters=True)
        sizes = {1: 3, 2: 2}
        ps = [p for p in ex.run(fn, args=[ls(1, 3), ls(2, 2)]) if p.kind == "ret"]
    except (KeyError, Unanalysable) as e:
        rep.bad("R7.5", "anchor", str(e))
        return
    if not ps:
        rep.bad("R7.5", "paths", "no returning path", where=fn.loc())
        return
    for p in ps:
        terms = []

        def flat(t):
            while t[0] in ("&", "deref"):
                t = t[1]
            if t[0] == "call" and t[1].rsplit("::", 1)[-1] == "min" and len(t[2]) == 2:
                flat(t[2][0])
                flat(t[2][1])
            else:
                terms.append(bare(t))
        flat(p.ret)
        got = set()
        bad = None
        for t in terms:
            if t == "max_value()":
                continue
            m = re.match(r"^distance\(Euclidean::Euclidean\(\), deref\(\(nearest_neighbor\(bulk_load\(vec!\(\[(.*)\]\)\), from\(a(\d)\.0\[(\d)\]\)\) as Some\)\.0\), from\(a(\d)\.0\[(\d)\]\)\)$", t)
            if not m or (m.group(2), m.group(3)) != (m.group(4), m.group(5)):
                bad = "a term of the minimum is %s, not distance(nearest segment of the other operand, vertex)" % t[:160]
                break
            segs = re.findall(r"new\(Line::Line\(into\(a(\d)\.0\[(\d)\]\), into\(a(\d)\.0\[(\d)\]\)\)\)", m.group(1))
            other = 2 if m.group(2) == "1" else 1
            want_segs = [(str(other), str(k), str(other), str(k + 1)) for k in range(sizes[other] - 1)]
            if sorted(segs) != sorted(want_segs):
                bad = "vertex a%s[%s] is measured against the segments %s, expected every segment of the other operand %s" % (m.group(2), m.group(3), segs, want_segs)
                break
            got.add((int(m.group(2)), int(m.group(3))))
        want = {(a, k) for a in (1, 2) for k in range(sizes[a])}
        if bad is None and got != want:
            bad = "the vertices queried are %s, expected every vertex of both operands %s: a closest approach from a vertex that is never queried is missed" % (sorted(got), sorted(want))
        if bad:
            rep.bad("R7.5", "coverage", bad, where=fn.loc())
            return
    rep.ok("R7.5", "both-directions-all-vertices")


def line_line(rep, F):
    """R7.6: the segment-segment kernel: zero iff the segments intersect (exact predicate), otherwise the minimum of the four end-point-to-segment
    distances (each end point of each operand against the other segment)."""
    from .c01 import opaque
    from ..symex import bare
    rep.rule("R7.6", "distance(Line, Line) = 0 under a.intersects(b), otherwise min over {a.start->b, a.end->b, b.start->a, b.end->a}")
    fs = F.find(r"Distance<F, &.*line::Line<F>, &.*line::Line<F>>.*::distance$", crates=("geo",))
    if len(fs) != 1:
        rep.bad("R7.6", "anchor", "%d Line-Line distance impls" % len(fs))
        return
    fn = fs[0]
    try:
        ps = [p for p in opaque(F).run(fn) if p.kind == "ret"]
    except Unanalysable as e:
        rep.bad("R7.6", "unanalysable", str(e), where=fn.loc())
        return
    seen = {}
    for p in ps:
        atoms = [(bare(t), v) for t, v in p.pc]
        inter = [v for a, v in atoms if re.match(r"^intersects\(a2, a3\)$|^intersects\(a3, a2\)$", a)]
        r = bare(p.ret)
        if inter == [1]:
            seen["zero"] = r in ("zero()",)
            if not seen["zero"]:
                rep.bad("R7.6", "zero", "intersecting segments give %s" % r[:80], where=fn.loc())
                return
        elif inter == [0]:
            terms = set()
            t = p.ret

            def flat(x):
                while x[0] in ("&", "deref"):
                    x = x[1]
                if x[0] == "call" and x[1].rsplit("::", 1)[-1] == "min" and len(x[2]) == 2:
                    flat(x[2][0])
                    flat(x[2][1])
                else:
                    terms.add(bare(x))
            flat(t)
            want = {"distance(a1, start_point(a2), a3)", "distance(a1, end_point(a2), a3)", "distance(a1, start_point(a3), a2)", "distance(a1, end_point(a3), a2)"}
            alt = {w.replace("start_point(a2)", "a2.start").replace("end_point(a2)", "a2.end").replace("start_point(a3)", "a3.start").replace("end_point(a3)", "a3.end") for w in want}
            if terms == want or terms == alt:
                seen["min4"] = True
            else:
                missing = sorted((want - terms) if (terms & want) else (alt - terms))
                rep.bad("R7.6", "min4", "for disjoint segments the result is the minimum over %s: missing %s — the closest approach from that end point is never measured" % (sorted(terms), missing), where=fn.loc())
                return
        else:
            rep.bad("R7.6", "guard", "a result path is not decided by a.intersects(b): [%s] -> %s" % (show_pc(p.pc)[:100], r[:60]), where=fn.loc())
            return
    if seen.get("zero") and seen.get("min4"):
        rep.ok("R7.6", "line-line")
    else:
        rep.bad("R7.6", "shape", "zero / min-of-four paths not both found (%s)" % seen, where=fn.loc())


def point_kernel(rep, F, rule="R7.7"):
    """The innermost kernel of every Euclidean length / distance, |p - q|, on witnesses at ordinary, huge (2^600) and tiny (2^-600) magnitudes,
    numeric evaluation of the extracted table in doubles: a 3-4-5 configuration scaled by f has length 5f exactly.  (A plain
    sqrt(dx*dx + dy*dy) overflows to infinity / underflows to zero there, which breaks `within rounding tolerance` and makes lengths and
    centroids inf / NaN; the earlier form of this rule matched the call `hypot(dx, dy)` textually.)"""
    from ..numeval import NumEval
    from ..evalterm import NoModel
    rep.rule(rule, "Euclidean distance(Coord, Coord) on 3-4-5 witnesses at scale 1, 2^600 and 2^-600 (and mixed signs): exactly 5 * scale - no overflow or underflow of intermediate squares")
    fs = F.find(r"Distance<F, .*coord::Coord<F>, .*coord::Coord<F>> for .*Euclidean>::distance$", crates=("geo",))
    if len(fs) != 1:
        rep.bad(rule, "point-kernel:anchor", "%d Coord-Coord distance impls" % len(fs))
        return
    fn = fs[0]
    try:
        paths = [p for p in Symex(F, inline_crates=("geo", "geo_types"), max_depth=10).run(fn) if p.kind != "cut"]
        bad = None
        for f_ in (1.0, 2.0 ** 600, 2.0 ** -600, 1e150, 1e-170):
            for (ax, ay), (bx, by) in (((0.0, 0.0), (3.0, 4.0)), ((-3.0, 4.0), (0.0, 0.0)), ((1.0, -2.0), (-2.0, 2.0)), ((5.0, 5.0), (5.0, 5.0))):
                a = {"x": ax * f_, "y": ay * f_}
                b = {"x": bx * f_, "y": by * f_}
                ev = NumEval(F, {("arg", 2): a, ("arg", 3): b})
                hit = ev.select_path(paths)
                got = [float(ev.ev(h.ret)) for h in hit if h.kind == "ret"]
                want = 0.0 if a == b else 5.0 * f_
                if len(got) != 1 or not (abs(got[0] - want) <= 1e-12 * want):
                    bad = "distance(%s, %s) evaluates to %s in doubles, the exact distance is %r" % ((a["x"], a["y"]), (b["x"], b["y"]), got, want)
                    break
            if bad:
                break
    except (Unanalysable, NoModel, TypeError, KeyError, ValueError, OverflowError) as e:
        bad = "cannot be evaluated: %s" % e
    if bad:
        rep.bad(rule, "point-kernel", bad, where=fn.loc())
    else:
        rep.ok(rule, "point-kernel[20 witnesses, scales 1 / 2^600 / 2^-600 / 1e150 / 1e-170]")


def small_pair_tables(rep, F, rule="R7.8", only=None):
    """Every Euclidean Distance impl between Coord, Point and Line (whatever it delegates to, helpers of geo_types::private_utils inlined):
    the value of the extracted path table on every witness of a 3x3 grid equals the exact minimum distance (tolerance 1e-9).  Covers the
    point-to-SEGMENT kernel that Douglas-Peucker relies on (Distance<Coord, &Line>)."""
    from ..numeval import NumEval, seg_dist, seg_seg_dist, segs_intersect
    from ..evalterm import NoModel
    import math
    rep.rule(rule, "every Euclidean Distance impl between Coord, Point and Line: the path table (helpers inlined) gives the exact minimum distance on every witness pair of a 3x3 grid (distance to the SEGMENT, not to its supporting line; zero exactly when the operands share a point)")
    grid = [{"x": x, "y": y} for x in range(3) for y in range(3)]
    lines = [{"start": a, "end": b} for a in grid for b in grid]

    def kind(ty):
        ty = ty.lstrip("&")
        for k in ("coord::Coord", "point::Point", "line::Line<"):
            if k in ty:
                return k.split("::")[1].rstrip("<")
        return None

    def values(k):
        if k == "Coord":
            return [(c, ("c", c)) for c in grid]
        if k == "Point":
            return [({"0": c}, ("c", c)) for c in grid]
        return [(l, ("l", l)) for l in lines]

    def exact(a, b):
        if a[0] == "c" and b[0] == "c":
            return math.hypot(a[1]["x"] - b[1]["x"], a[1]["y"] - b[1]["y"])
        if a[0] == "c":
            return seg_dist(a[1], b[1]["start"], b[1]["end"])
        if b[0] == "c":
            return seg_dist(b[1], a[1]["start"], a[1]["end"])
        return seg_seg_dist(a[1]["start"], a[1]["end"], b[1]["start"], b[1]["end"])

    def m_intersects(ev, args):
        a, b = ev.ev(args[0]), ev.ev(args[1])

        def pts(v):
            if "start" in v:
                return v["start"], v["end"]
            c = v["0"] if "0" in v else v
            return c, c
        (a0, a1), (b0, b1) = pts(a), pts(b)
        return segs_intersect(a0, a1, b0, b1)
    n = 0
    for im in F.impls_of(DIST):
        if not im["self_ty"].endswith("euclidean::Euclidean"):
            continue
        ta = im["trait_args"][2:]
        ks = [kind(t) for t in ta]
        if None in ks or len(ks) != 2:
            continue
        key = "%s-%s" % tuple(ks)
        if only and key not in only:
            continue
        fn = F.impl_fn(im, "distance")
        try:
            ex = Symex(F, inline_crates=("geo", "geo_types"), max_depth=12, no_inline=[r"Intersects<.*>>::intersects$", r"::intersects$"])
            paths = [p for p in ex.run(fn) if p.kind != "cut"]
        except Unanalysable as e:
            rep.bad(rule, "small-pair:%s:unanalysable" % key, str(e), where=fn.loc())
            continue
        calls = {}
        for p in paths:
            for t, _ in p.pc:
                pass

        class Ev(NumEval):
            def call(self, t):
                if t[1].endswith("::intersects") and len(t[2]) == 2:
                    return m_intersects(self, t[2])
                return NumEval.call(self, t)
        bad = None
        k = 0
        va, vb = values(ks[0]), values(ks[1])
        if ks == ["Line", "Line"]:
            va, vb = va[::3], vb[::2]
        for a, ea in va:
            for b, eb in vb:
                ev = Ev(F, {("arg", 2): a, ("arg", 3): b})
                try:
                    hit = ev.select_path(paths)
                    if len(hit) != 1 or hit[0].kind != "ret":
                        bad = "witness %s / %s selects %s" % (ea[1], eb[1], [h.kind for h in hit])
                        break
                    got = float(ev.ev(hit[0].ret))
                except (NoModel, TypeError, KeyError, ValueError) as e:
                    bad = "not evaluable on %s / %s: %s" % (ea[1], eb[1], e)
                    break
                want = exact(ea, eb)
                k += 1
                if not (abs(got - want) <= 1e-9):
                    bad = "distance(%s, %s) evaluates to %.6g, the exact minimum distance is %.6g" % (ea[1], eb[1], got, want)
                    break
            if bad:
                break
        if not bad and sorted(ks) in (["Coord", "Line"], ["Line", "Point"]):
            # the same kernel far from the origin: a small configuration translated by (1e15, 2e15), where one unit in the last place is
            # 0.125 / 0.25 - the distance must come out of the coordinate DIFFERENCES (exact there), not of a nearest point rebuilt at that
            # magnitude.  Reference: the untranslated configuration.
            ox, oy = 1.0e15, 2.0e15
            for (px, py), (sx, sy), (ex_, ey) in (((26.0, 3.5), (0.0, 0.0), (100.0, 13.0)), ((-8.0, 1.5), (0.0, 0.0), (100.0, 13.0)), ((120.0, 17.5), (0.0, 0.0), (100.0, 13.0)),
                                                   ((3.0, 40.25), (0.0, 0.0), (0.0, 64.0)), ((5.0, 5.0), (2.0, 2.0), (2.0, 2.0))):
                pt = {"x": ox + px, "y": oy + py}
                ln = {"start": {"x": ox + sx, "y": oy + sy}, "end": {"x": ox + ex_, "y": oy + ey}}
                want = seg_dist({"x": px, "y": py}, {"x": sx, "y": sy}, {"x": ex_, "y": ey})
                vals = {"Coord": pt, "Point": {"0": pt}, "Line": ln}
                ev = Ev(F, {("arg", 2): vals[ks[0]], ("arg", 3): vals[ks[1]]})
                try:
                    hit = ev.select_path(paths)
                    got = float(ev.ev(hit[0].ret)) if len(hit) == 1 and hit[0].kind == "ret" else None
                except (NoModel, TypeError, KeyError, ValueError) as e:
                    bad = "not evaluable far from the origin: %s" % e
                    break
                k += 1
                if got is None or not (abs(got - want) <= 1e-9 * max(1.0, want)):
                    bad = "translated by (1e15, 2e15): distance((%s, %s), (%s, %s)-(%s, %s)) evaluates to %s in doubles, the exact distance is %.9g" % (px, py, sx, sy, ex_, ey, got, want)
                    break
        if bad:
            rep.bad(rule, "small-pair:%s" % key, "%s: %s" % (key, bad), where=fn.loc())
        else:
            n += 1
            rep.ok(rule, "small-pair:%s[%d witnesses]" % (key, k))
    if not only:
        rep.floor(rule, "Distance impls between Coord / Point / Line", n, 8)


def contains_point_table(rep, F, rule="R7.9"):
    """geo_types::private_utils::line_string_contains_point (the zero shortcut of Point-LineString, see the known finding of R7.2) on line strings
    of 2 and 3 coordinates of a 3x3 grid: true exactly when the point lies on a segment.  On such witnesses its epsilon test is exact (the
    two axis parameters are the same rational or differ by at least 1/4), so any disagreement is a wrong branch, not rounding."""
    from ..numeval import NumEval, on_seg
    from ..evalterm import NoModel
    import itertools
    rep.rule(rule, "line_string_contains_point (2 and 3 coordinates, exact unrolling, 3x3 grid): true exactly when the point lies on one of the segments")
    try:
        fn = F.one(r"^geo_types::private_utils::line_string_contains_point$", crates=("geo_types",))
    except KeyError as e:
        rep.bad(rule, "contains-point:anchor", str(e))
        return
    LS = "geo_types::geometry::line_string::LineString"
    grid = [{"x": x, "y": y} for x in range(3) for y in range(3)]
    k = 0
    for n in (2, 3):
        ls = ("adt", LS, "LineString", (("call", "vec!", (("array", tuple(("opaque", "v%d" % i) for i in range(n))),)),))
        try:
            ex = Symex(F, concrete_iters=True, loop_bound=8, inline_crates=("geo", "geo_types"), max_depth=12)
            paths = [p for p in ex.run(fn, args=[("&", ls), ("arg", 2)]) if p.kind != "cut"]
        except Unanalysable as e:
            rep.bad(rule, "contains-point:unanalysable", str(e), where=fn.loc())
            return
        combos = itertools.product(grid, repeat=n) if n == 2 else [c for c in itertools.product(grid[::2] + [grid[1]], repeat=3)]
        for vs in combos:
            for q in grid:
                env = {("opaque", "v%d" % i): vs[i] for i in range(n)}
                env[("arg", 2)] = {"0": q}
                ev = NumEval(F, env)
                try:
                    hit = ev.select_path(paths)
                    got = sorted(set(bool(ev.ev(h.ret)) if h.kind == "ret" else "panic" for h in hit))
                except (NoModel, TypeError, KeyError, ValueError) as e:
                    rep.bad(rule, "contains-point:non-abstractable", "not evaluable on %s / %s: %s" % ([(v["x"], v["y"]) for v in vs], (q["x"], q["y"]), e), where=fn.loc())
                    return
                want = any(on_seg(q, vs[i], vs[i + 1]) for i in range(n - 1))
                k += 1
                if got != [want]:
                    rep.bad(rule, "contains-point:table", "line_string_contains_point(%s, %s) evaluates to %s, exact geometry says %s" %
                            ([(v["x"], v["y"]) for v in vs], (q["x"], q["y"]), got, want), where=fn.loc())
                    return
    rep.ok(rule, "contains-point[%d witnesses]" % k)


def shape_pair_tables(rep, F, rule="R7.13"):
    """Euclidean distance of a Point to a LineString (3 coordinates) and to a Polygon (a triangle with a triangular hole; rings unrolled
    exactly) and of a Line to a LineString, with `intersects` answered by exact reference geometry: the value of the extracted path table on every witness (points and
    segments outside, inside the hole, inside the body, on the boundary, opposite the middle of an edge, beyond a corner) is the exact
    minimum distance - to the SEGMENTS of every ring (not only to their vertices, not only to the exterior), zero in the closed region."""
    from ..numeval import NumEval, seg_dist, seg_seg_dist, segs_intersect
    from ..evalterm import NoModel
    from .c02_kernels import _pip
    import math
    rep.rule(rule, "Euclidean distance Point -> LineString(3) / Polygon(square with a square hole) and Line -> LineString(3) / the same Polygon (segment kernels compositional: R7.4 / R7.8 / R7.9), every witness of the catalogue: the path table gives the exact minimum distance to the segments of every ring, zero in the closed region")
    GTp = "geo_types::geometry::"

    def vec(items):
        return ("call", "vec!", (("array", tuple(items)),))
    O = lambda n: ("opaque", n)
    ls_t = lambda names: ("adt", GTp + "line_string::LineString", "LineString", (vec([O(n) for n in names]),))
    EXT = [(0, 0), (6, 0), (6, 6), (0, 6), (0, 0)]
    HOLE = [(2, 2), (2, 4), (4, 4), (4, 2), (2, 2)]
    LS3 = [(0, 0), (4, 0), (4, 3)]
    env_poly = {}
    for i, c in enumerate(EXT):
        env_poly[O("e%d" % i)] = {"x": float(c[0]), "y": float(c[1])}
    for i, c in enumerate(HOLE):
        env_poly[O("h%d" % i)] = {"x": float(c[0]), "y": float(c[1])}
    env_ls = {O("l%d" % i): {"x": float(c[0]), "y": float(c[1])} for i, c in enumerate(LS3)}
    poly_t = ("adt", GTp + "polygon::Polygon", "Polygon", (ls_t(["e%d" % i for i in range(5)]), vec([ls_t(["h%d" % i for i in range(5)])])))
    ls3_t = ls_t(["l0", "l1", "l2"])
    D = lambda c: {"x": float(c[0]), "y": float(c[1])}
    pts = [(-2, 3), (3, -2), (8, 8), (3, 3), (3, 2.5), (1, 1), (0, 3), (2, 3), (6, 6), (5, 3), (7, 3), (3, 8), (-1, -1), (2.5, 3.5), (14, -1), (4, 4), (5, 5), (3.5, 3.5), (1, 8)]
    segs = [((-3, 1), (-1, 5)), ((2.5, 2.5), (3.5, 3.5)), ((1, 1), (1, 5)), ((-2, 3), (8, 3)), ((7, -1), (9, 2)), ((3, 3), (3, 3.5)), ((-1, 7), (7, 7)), ((3, -3), (3, -1)), ((8, 7), (7, 8))]

    def rings_of(v):
        out = []
        if isinstance(v, dict) and "exterior" in v:
            out.append(v["exterior"]["0"])
            out += [r["0"] for r in v["interiors"]]
        elif isinstance(v, dict) and "0" in v and isinstance(v["0"], list):
            out.append(v["0"])
        return out

    def in_poly(v, p):
        rs = rings_of(v)
        e = _pip(rs[0], p)
        if e != "Inside":
            return e == "OnBoundary"
        return not any(_pip(r, p) == "Inside" for r in rs[1:])

    def geom_kind(v):
        if isinstance(v, dict) and "exterior" in v:
            return "poly"
        if isinstance(v, dict) and "start" in v:
            return "line"
        if isinstance(v, dict) and "0" in v and isinstance(v["0"], list):
            return "ls"
        return "pt"

    def pt_of(v):
        while isinstance(v, dict) and "0" in v and "x" not in v:
            v = v["0"]
        return v

    def ref_intersects(a, b):
        ka, kb = geom_kind(a), geom_kind(b)
        if ka in ("poly", "ls") and kb in ("pt", "line"):
            a, b, ka, kb = b, a, kb, ka
        if ka == "pt":
            p = pt_of(a)
            if kb == "poly":
                return in_poly(b, p)
            if kb == "ls":
                c = b["0"]
                return any(seg_dist(p, c[i], c[i + 1]) == 0 for i in range(len(c) - 1))
            if kb == "line":
                return seg_dist(p, b["start"], b["end"]) == 0
            return p == pt_of(b)
        if ka == "line":
            s, e = a["start"], a["end"]
            if kb == "line":
                return segs_intersect(s, e, b["start"], b["end"])
            rs = rings_of(b)
            if any(segs_intersect(s, e, r[i], r[i + 1]) for r in rs for i in range(len(r) - 1)):
                return True
            return kb == "poly" and in_poly(b, s)
        raise NoModel("intersects(%s, %s)" % (ka, kb))

    class Ev(NumEval):
        def call(self, t):
            m = t[1].rsplit("::", 1)[-1]
            if t[1].endswith("::intersects") and len(t[2]) == 2:
                return ref_intersects(self.ev(t[2][0]), self.ev(t[2][1]))
            # the segment kernels are symbols here: each has its own table (R7.4 clamp, R7.8 small pairs, R7.9 contains-point)
            if m == "line_segment_distance" and len(t[2]) == 3:
                return seg_dist(pt_of(self.ev(t[2][0])), pt_of(self.ev(t[2][1])), pt_of(self.ev(t[2][2])))
            if m == "point_line_euclidean_distance" and len(t[2]) == 2:
                l = self.ev(t[2][1])
                return seg_dist(pt_of(self.ev(t[2][0])), l["start"], l["end"])
            if m == "line_string_contains_point" and len(t[2]) == 2:
                c = self.ev(t[2][0])["0"]
                q = pt_of(self.ev(t[2][1]))
                return any(seg_dist(q, c[i], c[i + 1]) == 0 for i in range(len(c) - 1))
            if m == "distance" and len(t[2]) == 3:
                a, b = self.ev(t[2][1]), self.ev(t[2][2])
                if geom_kind(a) == "line" and geom_kind(b) == "line":
                    return seg_seg_dist(a["start"], a["end"], b["start"], b["end"])
            return NumEval.call(self, t)

    def exact(a_kind, a, target_rings, poly):
        if a_kind == "pt":
            if poly is not None and in_poly(poly, a):
                return 0.0
            return min(seg_dist(a, r[i], r[i + 1]) for r in target_rings for i in range(len(r) - 1))
        s, e = a
        if poly is not None and ref_intersects({"start": s, "end": e}, poly):
            return 0.0
        return min(seg_seg_dist(s, e, r[i], r[i + 1]) for r in target_rings for i in range(len(r) - 1))
    cases = [
        ("Point-LineString", r"&%spoint::Point<F>$" % GTp, r"&%sline_string::LineString<F>$" % GTp, "pt", ls3_t, env_ls, None),
        ("Point-Polygon", r"&%spoint::Point<F>$" % GTp, r"&%spolygon::Polygon<F>$" % GTp, "pt", poly_t, env_poly, True),
        ("Line-LineString", r"&%sline::Line<F>$" % GTp, r"&%sline_string::LineString<F>$" % GTp, "line", ls3_t, env_ls, None),
        ("Line-Polygon", r"&%sline::Line<F>$" % GTp, r"&%spolygon::Polygon<F>$" % GTp, "line", poly_t, env_poly, True),
    ]
    n_ok = 0
    for key, ra, rb, akind, shape_t, env0, is_poly in cases:
        fn = None
        for im in F.impls_of(DIST):
            if im["self_ty"].endswith("euclidean::Euclidean") and len(im["trait_args"]) == 4 and re.search(ra, im["trait_args"][2]) and re.search(rb, im["trait_args"][3]):
                fn = F.impl_fn(im, "distance")
        if fn is None:
            rep.bad(rule, "shape-pair:%s:anchor" % key, "no Euclidean Distance impl for %s" % key)
            continue
        a_t = ("&", ("adt", GTp + "point::Point", "Point", (O("q"),))) if akind == "pt" else ("&", ("adt", GTp + "line::Line", "Line", (O("qs"), O("qe"))))
        try:
            ex = Symex(F, inline_crates=("geo", "geo_types"), max_depth=14, concrete_iters=True, loop_bound=12, max_paths=60000, budget_s=90,
                       no_inline=[r"Intersects<.*>>::intersects$", r"::intersects$", r"private_utils::line_segment_distance$", r"private_utils::point_line_euclidean_distance$",
                                  r"private_utils::line_string_contains_point$", r"Distance<F, &geo_types::geometry::line::Line<F>, &geo_types::geometry::line::Line<F>>>::distance$"])
            ex.resolve_by_receiver = True
            paths = [p for p in ex.run(fn, args=[("arg", 1), a_t, ("&", shape_t)]) if p.kind != "cut"]
        except Unanalysable as e:
            rep.bad(rule, "shape-pair:%s:unanalysable" % key, str(e), where=fn.loc())
            continue
        rings = [[D(c) for c in (EXT if is_poly else LS3)]] + ([[D(c) for c in HOLE]] if is_poly else [])
        poly_v = {"exterior": {"0": rings[0]}, "interiors": [{"0": rings[1]}]} if is_poly else None
        bad = None
        k = 0
        for w in (pts if akind == "pt" else segs):
            env = dict(env0)
            if akind == "pt":
                env[O("q")] = D(w)
                a_val = D(w)
            else:
                env[O("qs")], env[O("qe")] = D(w[0]), D(w[1])
                a_val = (D(w[0]), D(w[1]))
            ev = Ev(F, env)
            try:
                hit = ev.select_path(paths)
                if len(hit) != 1 or hit[0].kind != "ret":
                    bad = "witness %s selects %s" % (w, [h.kind for h in hit])
                    break
                got = float(ev.ev(hit[0].ret))
            except (NoModel, TypeError, KeyError, ValueError) as e:
                bad = "not evaluable on %s: %s" % (w, e)
                break
            want = exact(akind, a_val, rings, poly_v)
            k += 1
            if not (abs(got - want) <= 1e-9):
                bad = "distance(%s %s, %s) evaluates to %.6g, the exact minimum distance is %.6g" % (
                    "POINT" if akind == "pt" else "LINE", w, "POLYGON(%s, hole %s)" % (EXT, HOLE) if is_poly else "LINESTRING%s" % (LS3,), got, want)
                break
        if bad:
            rep.bad(rule, "shape-pair:%s" % key, "%s: %s" % (key, bad), where=fn.loc())
        else:
            n_ok += 1
            rep.ok(rule, "shape-pair:%s[%d witnesses, %d paths]" % (key, k, len(paths)))
    rep.floor(rule, "shape pair tables", n_ok, 4)
