"""HasDimensions of the basic geometry types as decision tables on witnesses (shared by C01 — compute_disjoint and the star labelling read
dimensions() / boundary_dimensions() — and C06 — the centroid dispatches a degenerate Triangle / Rect / Polygon on its dimensions()).

For Line, Rect, Triangle, LineString (0..3 coordinates) and Polygon (exterior of 0..4 coordinates) the path table of is_empty / dimensions /
boundary_dimensions is evaluated on every configuration of a 3x3 grid and compared with the point-set meaning: the dimension of the set
(a repeated point is a point, collinear corners are a segment) and of its topological boundary (Empty for a point or a closed curve, points
for an open curve, curves for an area)."""
import itertools
from ..symex import Symex, Unanalysable, show_pc
from ..evalterm import ArithEval as Evaluator, Enum, NoModel, orient

GT = "geo_types::geometry::"
HD = "geo::algorithm::dimensions::HasDimensions"
GRID = [{"x": x, "y": y} for x in range(3) for y in range(3)]


def bdim(d, closed=False):
    if closed and d != "TwoDimensional":
        return "Empty"
    return {"Empty": "Empty", "ZeroDimensional": "Empty", "OneDimensional": "ZeroDimensional", "TwoDimensional": "OneDimensional"}[d]


def distinct(cs):
    out = []
    for c in cs:
        if c not in out:
            out.append(c)
    return out


def collinear(cs):
    d = distinct(cs)
    return all(orient(d[0], d[1], c) == "Collinear" for c in d[2:]) if len(d) >= 2 else True


def set_dim(cs, areal):
    d = distinct(cs)
    if not d:
        return "Empty"
    if len(d) == 1:
        return "ZeroDimensional"
    if not areal or collinear(cs):
        return "OneDimensional"
    return "TwoDimensional"


def vec(items):
    return ("call", "vec!", (("array", tuple(items)),))


def run(rep, F, rule):
    rep.rule(rule, "is_empty / dimensions / boundary_dimensions of Line, Rect, Triangle, LineString (0..3 coordinates) and Polygon (exterior of 0..4 coordinates): the path table gives the dimension of the point set and of its boundary on every configuration of a 3x3 grid (repeated points, collinear corners, closed and open curves)")
    n_ok = 0

    def table(ty, arg, env_of, cases, spec, lenient=None):
        """ty: type path below geo_types::geometry; arg: symbolic argument term; cases: iterable of witness tuples; spec(case) -> (empty, dim, bdim)"""
        nonlocal n_ok
        name = ty.split("::")[-1]
        cases = list(cases)
        for meth, idx in (("is_empty", 0), ("dimensions", 1), ("boundary_dimensions", 2)):
            key = "%s::%s" % (name, meth)
            try:
                fn = F.impl_method(HD, r"^%s%s<C>$" % (GT, ty), None, meth, crates=("geo",))
                ex = Symex(F, concrete_iters=True, loop_bound=8, inline_crates=("geo", "geo_types"), max_depth=12, no_inline=[r"Kernel.*::orient2d$"])
                paths = [p for p in ex.run(fn, args=[("&", arg)]) if p.kind != "cut"]
            except (KeyError, Unanalysable) as e:
                rep.bad(rule, key + ":unanalysable", str(e))
                continue
            bad = None
            for case in cases:
                ev = Evaluator(F, env_of(case))
                try:
                    hit = ev.select_path(paths)
                    got = []
                    for h in hit:
                        if h.kind != "ret":
                            got.append("panic")
                        else:
                            v = ev.ev(h.ret)
                            got.append(v.variant if isinstance(v, Enum) else bool(v))
                    got = sorted(set(map(str, got)))
                except (NoModel, TypeError, KeyError, IndexError) as e:
                    bad = "not evaluable on %s: %s" % (fmt(case), e)
                    break
                want = spec(case)[idx]
                allowed = {str(want)}
                if lenient:
                    allowed |= {str(x) for x in lenient(case, idx)}
                if len(got) != 1 or got[0] not in allowed:
                    bad = "%s(%s) evaluates to %s, the point set has %s" % (meth, fmt(case), got, want)
                    break
            if bad:
                rep.bad(rule, key, "%s: %s" % (key, bad), where=fn.loc())
            else:
                n_ok += 1
                rep.ok(rule, "%s[%d configurations]" % (key, len(cases)))

    def fmt(case):
        return "[" + " ".join("(%d,%d)" % (c["x"], c["y"]) for c in case) + "]"

    def C(i):
        return ("opaque", "c%d" % i)

    def env(case):
        return {C(i): c for i, c in enumerate(case)}
    # Line
    table("line::Line", ("adt", GT + "line::Line", "Line", (C(0), C(1))), env, itertools.product(GRID, repeat=2),
          lambda cs: (False, set_dim(cs, False), bdim(set_dim(cs, False), closed=cs[0] == cs[1])))
    # Triangle
    table("triangle::Triangle", ("adt", GT + "triangle::Triangle", "Triangle", (C(0), C(1), C(2))), env, itertools.product(GRID, repeat=3),
          lambda cs: (False, set_dim(cs, True), bdim(set_dim(cs, True))))
    # Rect (min <= max componentwise: the invariant of the type)
    rects = [(a, b) for a in GRID for b in GRID if a["x"] <= b["x"] and a["y"] <= b["y"]]
    table("rect::Rect", ("adt", GT + "rect::Rect", "Rect", (C(0), C(1))), env, rects,
          lambda cs: (False, "ZeroDimensional" if cs[0] == cs[1] else "OneDimensional" if (cs[0]["x"] == cs[1]["x"] or cs[0]["y"] == cs[1]["y"]) else "TwoDimensional",
                      bdim("ZeroDimensional" if cs[0] == cs[1] else "OneDimensional" if (cs[0]["x"] == cs[1]["x"] or cs[0]["y"] == cs[1]["y"]) else "TwoDimensional")))
    # LineString of 0..3 coordinates
    sub = GRID[::2] + [GRID[1]]
    for n in range(0, 4):
        ls = ("adt", GT + "line_string::LineString", "LineString", (vec([C(i) for i in range(n)]),))
        cases = itertools.product(GRID if n <= 2 else sub, repeat=n)
        table("line_string::LineString", ls, env, cases,
              lambda cs: (len(cs) == 0, set_dim(cs, False), bdim(set_dim(cs, False), closed=(len(cs) == 0 or cs[0] == cs[-1]))),
              lenient=lambda cs, idx: (["Empty", "ZeroDimensional"] if idx == 2 and len(cs) == 0 else []))
    # Polygon without holes, exterior of 0..4 coordinates (Polygon::new closes the ring: the witness rings are closed)
    for n in range(0, 5):
        if n in (1, 2):
            continue        # a closed ring has 0, or at least ... coordinates; 1- and 2-coordinate rings are [p] / [p, p]
        ring = ("adt", GT + "line_string::LineString", "LineString", (vec([C(i) for i in range(n)]),))
        pg = ("adt", GT + "polygon::Polygon", "Polygon", (ring, vec([])))
        cases = [cs + (cs[0],) for cs in itertools.product(sub, repeat=n - 1)] if n else [()]

        def spec(cs):
            d = set_dim(cs, True)
            return (len(cs) == 0, d, bdim(d))

        def lenient(cs, idx):
            # three distinct collinear coordinates: geo counts distinct coordinates (TwoDimensional); the point set is a segment. Both accepted
            # (such a polygon is invalid, outside the properties' domain)
            if len(distinct(cs)) >= 3 and collinear(cs):
                return ["TwoDimensional", "OneDimensional"] if idx == 1 else ["OneDimensional", "ZeroDimensional"]
            return []
        table("polygon::Polygon", pg, env, cases, spec, lenient)
    rep.floor(rule, "HasDimensions tables of the basic types", n_ok, 30)
