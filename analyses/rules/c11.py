"""C11 — line_intersection classifies and locates segment crossings exactly.

 R11.1 exactness of every decision (taint, shared with C03)
 R11.2 classification table + R11.3 provenance of improper points / overlap ends + R11.5 order independence:
       the MIR decision table of line_intersection (proper_intersection uninterpreted) evaluated on every ordered pair of
       grid segments against exact integer reference geometry
 R11.4 agreement with Intersects<Line> for Line (same witnesses)
 R11.6 proper point: what proper_intersection returns is either accepted by both envelope tests or an input endpoint
       chosen by nearest_endpoint; nearest_endpoint's comparison table selects the minimum of its four candidates
"""
import itertools
import re
from ..facts import Facts, short
from ..symex import Symex, Unanalysable, show, show_pc
from ..evalterm import Evaluator, Enum, NoModel, orient
from ..flow import Taint
from .c02_kernels import Tree, CALLS, C, on_segment, fmt, G3, G4, HELPERS
from . import c03

LEVEL = "other"
LI = "geo::algorithm::line_intersection::"


def seg_points(l):
    return l["start"], l["end"]


def reference(p, q):
    """Exact shared point set of two closed integer segments: None | ('point', c, proper) | ('overlap', a, b)."""
    ps, pe = seg_points(p)
    qs, qe = seg_points(q)
    o = [orient(ps, pe, qs), orient(ps, pe, qe), orient(qs, qe, ps), orient(qs, qe, pe)]
    p_deg, q_deg = ps == pe, qs == qe
    if all(x == "Collinear" for x in o) and not (p_deg and q_deg and ps != qs):
        # all on one line (or degenerate cases lying on the other segment's line): 1-D interval intersection
        pts = [ps, pe, qs, qe]
        # direction: pick a non-degenerate segment
        base = p if not p_deg else q
        bs, be = seg_points(base)
        if bs == be:
            # both degenerate and equal
            return ("point", ps, False)
        key = lambda c: (c["x"] - bs["x"]) * (be["x"] - bs["x"]) + (c["y"] - bs["y"]) * (be["y"] - bs["y"])
        # points collinear with base? (a degenerate segment may be off the line)
        for c in pts:
            if orient(bs, be, c) != "Collinear":
                return None
        plo, phi = sorted([key(ps), key(pe)])
        qlo, qhi = sorted([key(qs), key(qe)])
        lo, hi = max(plo, qlo), min(phi, qhi)
        if lo > hi:
            return None
        cand = {key(c): c for c in pts}
        if lo == hi:
            return ("point", cand[lo], False)
        return ("overlap", cand[lo], cand[hi])
    # general position (at most one common point)
    common = [c for c in (qs, qe) if on_segment(c, ps, pe)] + [c for c in (ps, pe) if on_segment(c, qs, qe)]
    if common:
        return ("point", common[0], False)
    if p_deg or q_deg:
        return None
    if o[0] != o[1] and o[2] != o[3] and "Collinear" not in o:
        return ("point", None, True)
    return None


def run(rep, tier):
    rep.explanation = ("The complete MIR decision table of line_intersection (envelope test, four orientation signs, end-point equalities, the "
                       "collinear sub-case; proper_intersection left uninterpreted) and of Line∩Line is walked with the atom values of every "
                       "ordered pair of segments on a small integer grid and compared with exact reference geometry: None / Collinear with the "
                       "exact overlap ends (either direction) / single point, properness, and for improper points the input end point the code "
                       "copies. Both argument orders are in the catalogue, so order independence is covered. Exactness of the decisions is "
                       "the taint rule of C03 restricted to this file. The coordinates of proper points (rounding) are not decided.")
    rep.trusted = ["reference geometry in analyses/rules/c11.py", "robust::orient2d", "symbolic models of core in analyses/symex.py"]
    rep.assumptions = ["finite coordinates"]
    F = Facts("default")
    exactness(rep, F)
    classification(rep, F, tier)
    agreement(rep, F)
    proper_point(rep, F)
    # every orientation sign line_intersection reads comes from the scalar's kernel: the two kernel bodies (shared with C03)
    from . import c03
    c03.kernel_bodies(rep, F, rule="R11.7")
    c03.integer_kernel(rep, F, rule="R11.7")
    # Line∩Line's collinear branch stands on point_in_rect / value_in_between: their tables (shared with C02), also at extreme magnitudes
    from . import c02_kernels
    c02_kernels.run(rep, F, tier, only=set(), rule="R11.9")
    proper_point_table(rep, F, tier)


def exactness(rep, F):
    rep.rule("R11.1", "no decision of line_intersection / collinear_intersection depends on rounded arithmetic (C03 R3.3 on this file)")
    T = c03.taint_of(F)
    for name in ("line_intersection", "collinear_intersection"):
        try:
            fn = F.one(r"^%s%s$" % (LI, name), crates=("geo",))
        except KeyError as e:
            rep.bad("R11.1", name + ":anchor", str(e))
            continue
        bad = []
        for g in [fn] + F.closures_of(fn):
            for bb, line, labs in T.switch_labels(g):
                bad.append((line, sorted(labs)[0]))
        if bad:
            rep.bad("R11.1", "decision:" + name, "a branch depends on %s (line %s)" % (bad[0][1], bad[0][0]), where=fn.loc())
        else:
            rep.ok("R11.1", "clean:" + name)


def outcome(ex, ev, p):
    r = p.ret
    if r[0] != "adt" or r[1] != "core::option::Option":
        raise NoModel("unexpected result %s" % show(r)[:80])
    if r[2] == "None":
        return None
    li = r[3][0]
    if li[0] != "adt":
        raise NoModel("result not a LineIntersection aggregate: %s" % show(li)[:80])
    if li[2] == "SinglePoint":
        pt, proper = li[3][0], li[3][1]
        proper = ev.ev(proper)
        if proper:
            t = pt
            is_proper_call = isinstance(t, tuple) and t[0] == "call" and t[1].endswith("proper_intersection")
            return ("point", "computed" if is_proper_call else ev.ev(pt), True)
        return ("point", ev.ev(pt), False)
    if li[2] == "Collinear":
        ln = ev.ev(li[3][0])
        return ("overlap", ln["start"], ln["end"])
    raise NoModel("variant %s" % li[2])


def _collinear_families():
    """every ordered pair of segments among four collinear points, on a horizontal, a vertical and a diagonal line: one segment strictly inside
    the other, partial overlaps, end-to-end contact, gaps - configurations a 3x3 grid cannot hold (it has only three points per line)"""
    out = []
    for line_pts in ([C(x, 1) for x in range(4)], [C(2, y) for y in range(4)], [C(k, k) for k in range(4)], [C(k, 3 - k) for k in range(4)]):
        ss = [{"start": a, "end": b} for a, b in itertools.product(line_pts, repeat=2)]
        out += list(itertools.product(ss, repeat=2))
    return out


def classification(rep, F, tier, rule="R11.2", fn=None, pq=(1, 2), what="line_intersection"):
    rep.rule(rule, what + "'s decision table equals the exact classification (None / Collinear overlap / single point, properness) on every ordered pair of grid segments; "
                      "improper points and overlap ends are the true input end points (R11.3); both orders are covered (R11.5)")
    try:
        fn = fn or F.one(r"^%sline_intersection$" % LI, crates=("geo",))
    except KeyError as e:
        rep.bad(rule, "anchor", str(e))
        return
    ex = Symex(F, no_inline=[r"line_intersection::proper_intersection$", r"::orient2d$"] + HELPERS, max_paths=60000, budget_s=60)
    try:
        paths = [p for p in ex.run(fn) if p.kind == "ret"]
    except Unanalysable as e:
        rep.bad(rule, "unanalysable", "cannot tabulate %s (%s); fail closed" % (what, e), where=fn.loc())
        return
    tree = Tree(paths)
    grid = G3 if tier == "quick" else G4
    segs = [{"start": a, "end": b} for a, b in itertools.product(grid, repeat=2)]
    pairs = list(itertools.product(segs, repeat=2)) + _collinear_families()
    n = 0
    reached = set()
    kinds = {}
    mism = {}
    for p_, q_ in pairs:
        ev = Evaluator(F, {("arg", pq[0]): p_, ("arg", pq[1]): q_}, CALLS)
        try:
            hit = tree.select(ev)
            if len(hit) != 1:
                rep.bad(rule, "table", "segments %s %s select %d rows" % (fmt(p_), fmt(q_), len(hit)), where=fn.loc())
                return
            got = outcome(ex, ev, hit[0])
        except NoModel as e:
            rep.bad(rule, "non-abstractable", "a decision of " + what + " is not an orientation sign / coordinate comparison (%s)" % e, where=fn.loc())
            return
        want = reference(p_, q_)
        n += 1
        reached.add(id(hit[0]))
        ok = False
        if want is None or got is None:
            ok = want is None and got is None
        elif want[0] == "point" and got[0] == "point":
            if want[2]:
                ok = got[2] is True and got[1] == "computed"
            else:
                ok = got[2] is False and got[1] == want[1]
        elif want[0] == "overlap" and got[0] == "overlap":
            ok = {(got[1]["x"], got[1]["y"]), (got[2]["x"], got[2]["y"])} == {(want[1]["x"], want[1]["y"]), (want[2]["x"], want[2]["y"])}
        kinds[(want or ("none",))[0] + ("-proper" if want and want[0] == "point" and want[2] else "")] = kinds.get((want or ("none",))[0] + ("-proper" if want and want[0] == "point" and want[2] else ""), 0) + 1
        if not ok:
            # one finding per (expected kind, reported kind, degenerate operands?) so that different deviations are told apart
            deg = "degenerate" if (p_["start"] == p_["end"] or q_["start"] == q_["end"]) else "proper-segments"
            cls = "%s->%s:%s" % ((want or ("none",))[0], (got or ("none",))[0], deg)
            if cls not in mism:
                mism[cls] = 0
                rep.bad(rule, "classification:" + cls, "for p=%s q=%s the decision table gives %s but the segments share %s  [row: %s]" %
                        (fmt(p_), fmt(q_), pretty(got), pretty(want), show_pc(hit[0].pc)[:200]), where=fn.loc(),
                        detail={"p": fmt(p_), "q": fmt(q_), "got": pretty(got), "want": pretty(want), "row": show_pc(hit[0].pc)[:900]})
            mism[cls] += 1
    rep.info["line_intersection_mismatches"] = mism
    if not mism:
        rep.ok(rule, "classification[%d ordered segment pairs, %d/%d rows reached]" % (n, len(reached), len(paths)),
               sample={"pairs": n, "rows": len(paths), "rows_reached": len(reached), "by_kind": kinds})
    rep.info["line_intersection_rows"] = len(paths)


def pretty(o):
    if o is None:
        return "nothing"
    if o[0] == "point":
        return "%s point %s" % ("a proper" if o[2] else "the improper", fmt(o[1]) if isinstance(o[1], dict) else o[1])
    return "the overlap %s-%s" % (fmt(o[1]), fmt(o[2]))


def agreement(rep, F, rule="R11.4"):
    rep.rule(rule, "Intersects<Line> for Line is true exactly when the segments share a point (hence agrees with line_intersection(..).is_some())")
    try:
        fn = F.impl_method("geo::algorithm::intersects::Intersects", r"line::Line<T>$", r"line::Line<T>$", "intersects", crates=("geo",))
    except KeyError as e:
        rep.bad(rule, "anchor", str(e))
        return
    ex = Symex(F, no_inline=HELPERS + [r"::orient2d$"], max_paths=60000, budget_s=60)
    try:
        paths = [p for p in ex.run(fn) if p.kind == "ret"]
    except Unanalysable as e:
        rep.bad(rule, "unanalysable", str(e), where=fn.loc())
        return
    tree = Tree(paths)
    segs = [{"start": a, "end": b} for a, b in itertools.product(G3, repeat=2)]
    n = 0
    for p_, q_ in list(itertools.product(segs, repeat=2)) + _collinear_families():
        ev = Evaluator(F, {("arg", 1): p_, ("arg", 2): q_}, CALLS)
        try:
            hit = tree.select(ev)
            if len(hit) != 1:
                rep.bad(rule, "table", "segments %s %s select %d rows" % (fmt(p_), fmt(q_), len(hit)), where=fn.loc())
                return
            got = bool(ev.ev(hit[0].ret))
        except NoModel as e:
            rep.bad(rule, "non-abstractable", str(e), where=fn.loc())
            return
        want = reference(p_, q_) is not None
        n += 1
        if got != want:
            rep.bad(rule, "Line∩Line", "for %s and %s intersects() is %s but the segments %s [row: %s]" % (fmt(p_), fmt(q_), got, "share a point" if want else "are disjoint", show_pc(hit[0].pc)[:260]), where=fn.loc())
            return
    rep.ok(rule, "Line∩Line[%d ordered pairs, %d rows]" % (n, len(paths)))


def proper_point(rep, F):
    rep.rule("R11.6", "proper_intersection returns the solved point only when both envelopes accept it, otherwise nearest_endpoint's pick; nearest_endpoint returns the candidate with the smallest distance")
    try:
        fn = F.one(r"^%sproper_intersection$" % LI, crates=("geo",))
        ne = F.one(r"^%snearest_endpoint$" % LI, crates=("geo",))
    except KeyError as e:
        rep.bad("R11.6", "anchor", str(e))
        return
    ex = Symex(F, no_inline=[r"raw_line_intersection$", r"nearest_endpoint$"])
    try:
        paths = [p for p in ex.run(fn) if p.kind == "ret"]
    except Unanalysable as e:
        rep.bad("R11.6", "proper:unanalysable", str(e), where=fn.loc())
        return
    ok = True
    for p in paths:
        r = show(p.ret)
        if "nearest_endpoint" in r:
            continue
        # returns the solved point: the path must have taken the true edge of both envelope tests on that point
        pc = show_pc(p.pc)
        # the envelope tests are comparisons of the returned point's coordinates against min/max of both lines
        atoms = [(t, v) for t, v in p.pc if t[0] == "cmp"]
        mentions_p = sum(1 for t, v in atoms if "a1" in show(t))
        mentions_q = sum(1 for t, v in atoms if "a2" in show(t))
        if mentions_p < 4 or mentions_q < 4:
            ok = False
            rep.bad("R11.6", "proper:envelope", "the solved point is returned on a path that does not test it against both envelopes: %s" % pc[:300], where=fn.loc())
            break
    if ok:
        rep.ok("R11.6", "proper:envelope-or-endpoint[%d rows]" % len(paths))
    # nearest_endpoint: abstract valuations of the four distances
    ex2 = Symex(F, no_inline=[r"point_line_euclidean_distance$"], concrete_iters=True, loop_bound=8)
    try:
        paths = [p for p in ex2.run(ne) if p.kind == "ret"]
    except Unanalysable as e:
        rep.bad("R11.6", "nearest:unanalysable", str(e), where=ne.loc())
        return
    dist_terms = []
    for p in paths:
        for t, v in p.pc:
            for x in (t[2], t[3]) if t[0] == "cmp" else ():
                if isinstance(x, tuple) and x[0] == "call" and x[1].endswith("point_line_euclidean_distance") and x not in dist_terms:
                    dist_terms.append(x)
    cands = {"a1.start": 0, "a1.end": 1, "a2.start": 2, "a2.end": 3}

    def cand_index(term):
        s = show(term).replace("*", "").replace("&", "")
        return cands.get(s)
    order = {}
    for d in dist_terms:
        i = cand_index(d[2][0])
        if i is not None:
            order[i] = d
    if len(order) != 4:
        rep.bad("R11.6", "nearest:candidates", "expected the four end-point distances, found %s" % [show(d)[:60] for d in dist_terms], where=ne.loc())
        return
    tree = Tree(paths)
    n = 0
    for vals in itertools.product(range(4), repeat=4):
        env = {order[i]: vals[i] for i in range(4)}
        ev = Evaluator(F, env, CALLS)
        try:
            hit = tree.select(ev)
        except NoModel as e:
            rep.bad("R11.6", "nearest:non-abstractable", str(e), where=ne.loc())
            return
        if len(hit) != 1:
            rep.bad("R11.6", "nearest:table", "distances %s select %d rows" % (vals, len(hit)), where=ne.loc())
            return
        got = cand_index(hit[0].ret)
        want = min(range(4), key=lambda i: (vals[i], i))
        n += 1
        if got != want:
            names = ["p.start", "p.end", "q.start", "q.end"]
            rep.bad("R11.6", "nearest:argmin", "with distances %s the table returns %s but the nearest candidate is %s (running minimum not maintained)" %
                    (dict(zip(names, vals)), names[got] if got is not None else show(hit[0].ret)[:40], names[want]), where=ne.loc())
            return
    rep.ok("R11.6", "nearest:argmin[%d valuations of 4 distances, %d rows]" % (n, len(paths)))


def proper_point_table(rep, F, tier="quick"):
    """R11.8: proper_intersection(p, q) on every properly crossing pair of segments of a 4x4 grid, evaluated numerically through the
    extracted path table (raw_line_intersection's homogeneous solve, the envelope test, the nearest-end-point fall-back all inlined): the
    result is the exact crossing point (rational reference) within 1e-9 and lies in both bounding boxes.  Decides the formula of the
    solve on well-conditioned input; its accuracy on ill-conditioned input is a magnitude question and stays undecided."""
    import itertools
    from fractions import Fraction
    from ..numeval import NumEval, orient
    from ..evalterm import NoModel
    rep.rule("R11.8", "proper_intersection on every properly crossing pair of grid segments, through the extracted path table: the point returned is the exact crossing (1e-9) and lies in both segments' bounding boxes")
    try:
        fn = F.one(r"^geo::algorithm::line_intersection::proper_intersection$", crates=("geo",))
        # the nearest-end-point fall-back stays a symbol: a well-conditioned proper crossing must not need it (its own table is R11.6)
        ex = Symex(F, inline_crates=("geo", "geo_types"), max_depth=14, max_paths=20000, budget_s=60, no_inline=[r"line_intersection::nearest_endpoint$"])
        paths = [p for p in ex.run(fn) if p.kind != "cut"]
    except (KeyError, Unanalysable) as e:
        rep.bad("R11.8", "proper-point:unanalysable", str(e))
        return
    N = 4 if tier == "quick" else 5
    pts = [(x, y) for x in range(N) for y in range(N)]
    segs = [(a, b) for a in pts for b in pts if a < b]
    if tier == "quick":
        segs = segs[::3]

    def D(p_):
        return {"x": float(p_[0]), "y": float(p_[1])}
    k = 0
    # the grid at its own size, and every fourth pair again shrunk by 2^-27 and 2^-40 / blown up by 2^20 (exact scalings): the crossing point
    # of two short, well-conditioned segments is as well defined as that of two long ones
    work = [(1.0, pr) for pr in itertools.product(segs, repeat=2)]
    for sc in (2.0 ** -27, 2.0 ** -40, 2.0 ** 20):
        work += [(sc, pr) for pr in list(itertools.product(segs, repeat=2))[::4]]
    for sc, ((a, b), (c, d)) in work:
        o1, o2, o3, o4 = orient(D(a), D(b), D(c)), orient(D(a), D(b), D(d)), orient(D(c), D(d), D(a)), orient(D(c), D(d), D(b))
        if not (o1 * o2 < 0 and o3 * o4 < 0):
            continue
        # exact crossing
        x1, y1, x2, y2, x3, y3, x4, y4 = map(Fraction, (a[0], a[1], b[0], b[1], c[0], c[1], d[0], d[1]))
        den = (x1 - x2) * (y3 - y4) - (y1 - y2) * (x3 - x4)
        px = ((x1 * y2 - y1 * x2) * (x3 - x4) - (x1 - x2) * (x3 * y4 - y3 * x4)) / den
        py = ((x1 * y2 - y1 * x2) * (y3 - y4) - (y1 - y2) * (x3 * y4 - y3 * x4)) / den
        S = lambda p_: {"x": float(p_[0]) * sc, "y": float(p_[1]) * sc}
        ev = NumEval(F, {("arg", 1): {"start": S(a), "end": S(b)}, ("arg", 2): {"start": S(c), "end": S(d)}})
        try:
            hit = ev.select_path(paths)
            if len(hit) != 1 or hit[0].kind != "ret":
                rep.bad("R11.8", "proper-point:table", "segments %s-%s / %s-%s select %s" % (a, b, c, d, [h.kind for h in hit]), where=fn.loc())
                return
            v = ev.ev(hit[0].ret)
            got = (float(v["x"]), float(v["y"]))
        except (NoModel, TypeError, KeyError, ValueError, ZeroDivisionError) as e:
            if "nearest_endpoint" in str(e):
                rep.bad("R11.8", "proper-point:fallback", "proper_intersection(%s-%s, %s-%s)%s gives up the solved crossing and falls back to the nearest end point, although the two segments cross properly and are well conditioned" % (
                    a, b, c, d, "" if sc == 1.0 else " scaled by %g" % sc), where=fn.loc())
                return
            rep.bad("R11.8", "proper-point:non-abstractable", "cannot be evaluated on %s-%s / %s-%s: %s" % (a, b, c, d, e), where=fn.loc())
            return
        k += 1
        if abs(got[0] - float(px) * sc) > 1e-9 * sc or abs(got[1] - float(py) * sc) > 1e-9 * sc:
            rep.bad("R11.8", "proper-point:value", "proper_intersection(%s-%s, %s-%s)%s = (%.9g, %.9g); the segments cross at (%s, %s)%s" % (
                a, b, c, d, "" if sc == 1.0 else " scaled by %g" % sc, got[0], got[1], px, py, "" if sc == 1.0 else " x %g" % sc), where=fn.loc())
            return
    if k < 100:
        rep.bad("R11.8", "proper-point:floor", "only %d properly crossing pairs" % k)
        return
    rep.ok("R11.8", "proper-point[%d crossing pairs]" % k)
