"""C01 — relate() returns the true DE-9IM matrix.   Only the structural ("consequently ...") clauses are decided:

 R1.1 uniform dispatch: every Relate impl builds its graph from GeometryCow::from(self) and nobody overrides relate();
      GeometryCow::from(&Geometry) maps each variant to the same-named variant; Rect / Triangle enter the graph as polygons
 R1.2 operand-role symmetry of compute_intersection_matrix (necessary for relate(b,a) = transpose)
 R1.3 the only shortcut is the disjoint-envelope one, and compute_disjoint's effect table
 R1.4 mod-2 boundary determination (determine_boundary, insert_boundary_point)
 R1.5 exactness of the relate line intersector (C03 taint)
The main clause (noding / labelling / matrix update compute the true matrix) depends on a data-dependent graph and is
not decided.
"""
import re
from ..facts import Facts, short
from ..symex import Symex, Unanalysable, show, show_pc
from . import c03

LEVEL = "other"
RELATE = "geo::algorithm::relate::Relate"
RO = "geo::algorithm::relate::relate_operation::RelateOperation"
GG = "geo::algorithm::relate::geomgraph::geometry_graph::GeometryGraph"
IM = "geo::algorithm::relate::geomgraph::intersection_matrix::IntersectionMatrix"
COW = "geo::geometry_cow::GeometryCow"


def opaque(F, **kw):
    """Path enumeration in which every call stays uninterpreted (call sequence / effect analysis)."""
    return Symex(F, inline_crates=(), **kw)


def calls_of(p):
    return [e for e in p.trace if e[0] == "call"]


def run(rep, tier):
    rep.explanation = ("Structural half of the property: uniform dispatch of all operand types into one graph builder, operand-role symmetry of the "
                       "relate pipeline (call multiset invariant under (graph_a,0)<->(graph_b,1)), the single admissible shortcut and its effect "
                       "table, the mod-2 boundary tables, exactness of the segment intersector. The correctness of noding, labelling and the matrix "
                       "update over a data-dependent graph is NOT decided by static analysis here.")
    rep.trusted = ["rustc MIR / callee resolution", "symbolic models in analyses/symex.py"]
    rep.assumptions = ["the undecided core (noding, labelling, update_intersection_matrix) is correct"]
    F = Facts("default")
    uniform_dispatch(rep, F)
    role_symmetry(rep, F)
    disjoint_table(rep, F)
    boundary_tables(rep, F)
    exactness(rep, F)
    dimension_tables(rep, F)
    # the intersector the graphs are noded with classifies every pair of segments exactly (table shared with C11, on the relate entry point itself)
    try:
        from . import c11
        ci = F.impl_method("geo::algorithm::relate::geomgraph::line_intersector::LineIntersector", r"RobustLineIntersector$", None, "compute_intersection", crates=("geo",))
        c11.classification(rep, F, "quick", rule="R1.16", fn=ci, pq=(2, 3), what="RobustLineIntersector::compute_intersection")
    except KeyError as e:
        rep.bad("R1.16", "anchor", str(e))
    from . import c05
    c05.winding_table(rep, F, rule="R1.7")
    # PreparedGeometry is a Relate operand too: the graph it hands to the pipeline must be a fresh, faithful copy (rules shared with C17)
    from . import c17
    from ..report import Alias
    rep.rule("R1.12", "prepared operands: geometry_graph() returns clone_for_arg_index of the cached graph with every edge re-allocated, the self-noding flag carried over, labels swapped iff the operand index changes, and the cached bounding box taken from the geometry itself")
    al = Alias(rep, "R1.12", " - relate() with a PreparedGeometry operand then differs from relate() on the plain geometry")
    c17.freshness(al, F)
    c17.typestate(al, F)
    c17.cached_fields(al, F)
    from . import dims
    dims.run(rep, F, "R1.13")
    # relate locates isolated components and incomplete star labels with coordinate_position, and takes its disjoint shortcut on bounding_rect:
    # the point-location kernels and the bounding-box tables (shared with C02 / C19)
    from . import c02_kernels, c02_linear, c19
    c02_kernels.run(rep, F, tier, only={"Rect.position", "Triangle.position", "Line.position", "ring-step", "polygon-composition"}, rule="R1.14")
    c02_linear.run(rep, F, tier, rule="R1.14")
    c19.bbox_tables(rep, F, rule="R1.15")
    from . import c01_state
    c01_state.topology_position(rep, F)
    c01_state.label(rep, F)
    c01_state.matrix_update(rep, F)
    c01_state.bundle_labels(rep, F, tier)
    c01_state.star_labels(rep, F, tier)
    # every exact predicate this property rests on is a sign of the orientation kernel (rules shared with C03)
    from . import c03 as _c03
    _c03.kernel_rules(rep, F, "R1.17")


# ------------------------------------------------------------------------------------------------
def uniform_dispatch(rep, F):
    rep.rule("R1.1", "all Relate impls are GeometryGraph::new(idx, GeometryCow::from(self)); relate() is not overridden; GeometryCow::from(&Geometry) is the identity on variant names; Rect/Triangle are added as their polygon form")
    n = 0
    for im in F.impls_of(RELATE):
        self_ty = short(im["self_ty"])
        names = [it["name"] for it in im["items"]]
        if "relate" in names:
            rep.bad("R1.1", "relate-overridden:%s" % self_ty, "%s overrides relate(): its matrix need not come from the shared graph pipeline" % self_ty, where=im["span"]["file"])
        if "PreparedGeometry" in self_ty:
            continue
        fn = F.impl_fn(im, "geometry_graph")
        if fn is None:
            rep.bad("R1.1", "no-geometry_graph:%s" % self_ty, "impl lacks geometry_graph")
            continue
        n += 1
        try:
            ps = [p for p in opaque(F).run(fn) if p.kind == "ret"]
        except Unanalysable as e:
            rep.bad("R1.1", "unanalysable:%s" % self_ty, str(e), where=fn.loc())
            continue
        good = len(ps) == 1
        if good:
            r = ps[0].ret
            s = show(r)
            good = bool(re.match(r"GeometryGraph::<[^>]*>::new\(a2, <GeometryCow<.*> as From<.*>>::from\(a1\)\)$", s.replace("*", ""))) and "GeometryCow" in str(r)
        if good:
            rep.ok("R1.1", "graph-from-cow:%s" % self_ty, sample=show(ps[0].ret)[:120])
        else:
            rep.bad("R1.1", "graph-from-cow:%s" % self_ty, "geometry_graph is not GeometryGraph::new(arg_index, GeometryCow::from(self)): %s" % [show(p.ret)[:120] for p in ps][:2], where=fn.loc())
    rep.floor("R1.1", "Relate impls", n, 11)
    # GeometryCow::from(&Geometry)
    try:
        fn = F.impl_method("core::convert::From", r"^%s<" % COW, r"^&.*geo_types::geometry::Geometry<T>$", "from", crates=("geo",))
        ps = [p for p in opaque(F).run(fn) if p.kind == "ret"]
        gvars = [v["name"] for v in F.adts["geo_types::geometry::Geometry"]["variants"]]
        seen = {}
        for p in ps:
            d = [v for t, v in p.pc if t[0] == "discr"]
            if d and p.ret[0] == "adt":
                seen[gvars[d[0]]] = p.ret[2]
        bad = {k: v for k, v in seen.items() if k != v}
        if len(seen) == len(gvars) and not bad:
            rep.ok("R1.1", "cow-variant-identity[%d variants]" % len(seen))
        else:
            rep.bad("R1.1", "cow-variant-identity", "GeometryCow::from(&Geometry) maps %s" % (bad or "only %d of %d variants" % (len(seen), len(gvars))), where=fn.loc())
    except (KeyError, Unanalysable) as e:
        rep.bad("R1.1", "cow-from:anchor", str(e))
    # add_geometry: Rect / Triangle as polygons
    try:
        fn = F.one(r"^%s::<[^>]*>::add_geometry$" % GG, crates=("geo",))
        ps = [p for p in opaque(F, loop_bound=1).run(fn) if p.kind == "ret"]
        cvars = [v["name"] for v in F.adts[COW]["variants"]]
        found = {}
        for p in ps:
            d = [v for t, v in p.pc if t[0] == "discr" and isinstance(v, int)]
            if not d:
                continue
            var = cvars[d[-1]] if d[-1] < len(cvars) else None
            cs = calls_of(p)
            names = [c[1].rsplit("::", 1)[-1] for c in cs]
            if var in ("Rect", "Triangle"):
                ok = False
                for c in cs:
                    if c[1].endswith("::add_polygon") and "to_polygon" in show(("call", c[1], c[2])):
                        ok = True
                found[var] = found.get(var, True) and ok
        for var in ("Rect", "Triangle"):
            if found.get(var):
                rep.ok("R1.1", "add_geometry:%s-as-polygon" % var)
            else:
                rep.bad("R1.1", "add_geometry:%s-as-polygon" % var, "%s is not added to the graph as add_polygon(&x.to_polygon())" % var, where=fn.loc())
    except (KeyError, Unanalysable) as e:
        rep.bad("R1.1", "add_geometry:anchor", str(e))


# ------------------------------------------------------------------------------------------------
def role_of(term, roles):
    s = show(term)
    out = []
    for name, pat in roles:
        if pat in s:
            out.append(name)
    return out


def role_symmetry(rep, F):
    rep.rule("R1.2", "compute_intersection_matrix treats the two operands symmetrically: the multiset of calls is invariant under (graph_a, 0) <-> (graph_b, 1); joint calls take (a, b) in that order")
    rep.rule("R1.3", "the only early return of compute_intersection_matrix is the disjoint-envelope shortcut through compute_disjoint(a, b); every other path runs the full pipeline up to update_intersection_matrix")
    try:
        fn = F.one(r"^%s::<'a, F, BBOX1, BBOX2>::compute_intersection_matrix$|^%s::.*::compute_intersection_matrix$" % (RO, RO), crates=("geo",))
    except KeyError as e:
        rep.bad("R1.2", "anchor", str(e))
        return
    try:
        paths = [p for p in opaque(F).run(fn) if p.kind == "ret"]
    except Unanalysable as e:
        rep.bad("R1.2", "unanalysable", str(e), where=fn.loc())
        return
    full = []
    for p in paths:
        names = [c[1].rsplit("::", 1)[-1] for c in calls_of(p)]
        if "update_intersection_matrix" in names:
            full.append(p)
        elif "compute_disjoint" in names:
            extra = [n for n in names if n not in ("empty_disjoint", "bounding_rect", "into", "intersects", "compute_disjoint")]
            cd = [c for c in calls_of(p) if c[1].endswith("::compute_disjoint")][0]
            args = show(("call", cd[1], cd[2]))
            order_ok = re.search(r"geometry_a.*geometry_b", args) is not None
            if extra:
                rep.bad("R1.3", "shortcut-extra-work", "the disjoint shortcut also calls %s" % extra[:4], where=fn.loc())
            elif not order_ok:
                rep.bad("R1.3", "shortcut-operand-order", "compute_disjoint is not called on (geometry_a, geometry_b): %s" % args[:160], where=fn.loc())
            else:
                # guard: taken only when a bbox is missing or the bboxes do not intersect
                pcs = show_pc(p.pc)
                rep.ok("R1.3", "disjoint-shortcut[%s]" % pcs[:90])
        else:
            rep.bad("R1.3", "other-early-return", "a path returns a matrix without the disjoint shortcut and without update_intersection_matrix (calls: %s): a fast path bypasses the topology graph" % names[:8], where=fn.loc())
    if not full:
        rep.bad("R1.3", "no-full-path", "no path runs the full pipeline", where=fn.loc())
        return
    # the full paths must all be guarded by `bbox_a.intersects(bbox_b)` only
    for p in full:
        atoms = [t for t, v in p.pc]
        others = [show(t)[:80] for t in atoms if not re.search(r"bounding_rect|intersects\(|log::|Level::|max_level", show(t))]
        if others:
            rep.bad("R1.3", "pipeline-guard", "the full pipeline is additionally guarded by %s" % others[:3], where=fn.loc())
    p = full[0]
    cs = calls_of(p)
    # identify the two graphs
    ga = gb = None
    for c in cs:
        if c[1].endswith("::geometry_graph"):
            idx = c[2][1] if len(c[2]) > 1 else None
            t = ("call", c[1], c[2]) if c[3] is None else ("call", c[1], c[2], c[3])
            if idx == ("const", 0):
                ga = t
            elif idx == ("const", 1):
                gb = t
    if ga is None or gb is None:
        rep.bad("R1.2", "graphs", "geometry_graph(0) / geometry_graph(1) not found on the pipeline path", where=fn.loc())
        return
    sa, sb = show(ga), show(gb)
    if not ("geometry_a" in sa and "geometry_b" in sb):
        rep.bad("R1.2", "graph-operands", "graph 0 is not built from geometry_a / graph 1 not from geometry_b: %s | %s" % (sa[:80], sb[:80]), where=fn.loc())

    def sig(c):
        name = c[1].rsplit("::", 1)[-1]
        roles = []
        for a in c[2]:
            s = show(a)
            # strip derived wrappers to the innermost mention
            ia, ib = s.find(sa), s.find(sb)
            if a == ("const", 0):
                roles.append("0")
            elif a == ("const", 1):
                roles.append("1")
            elif ia >= 0 and ib >= 0:
                roles.append("AB" if ia < ib else "BA")
            elif ia >= 0:
                roles.append("A")
            elif ib >= 0:
                roles.append("B")
            elif "geometry_a" in s and "geometry_b" not in s:
                roles.append("A")
            elif "geometry_b" in s and "geometry_a" not in s:
                roles.append("B")
            else:
                roles.append("_")
        return (name, tuple(roles))

    swap = {"A": "B", "B": "A", "0": "1", "1": "0", "AB": "BA", "BA": "AB", "_": "_"}
    sigs = [sig(c) for c in cs]
    relevant = [s for s in sigs if any(r in ("A", "B", "AB", "BA") for r in s[1])]
    from collections import Counter
    cnt = Counter(relevant)
    n_pairs = 0
    for s, k in sorted(cnt.items()):
        name, roles = s
        mirror = (name, tuple(swap[r] for r in roles))
        has_index = any(r in ("0", "1") for r in roles)
        joint = ("A" in roles and "B" in roles) or "AB" in roles or "BA" in roles
        if joint and not has_index:
            # a joint step: operands must appear in the order (a, b)
            flat = "".join(r for r in roles if r in ("A", "B", "AB", "BA"))
            if flat.startswith("A") and "BA" not in roles:
                rep.ok("R1.2", "joint:%s%s" % (name, list(roles)))
            else:
                rep.bad("R1.2", "joint-order:%s" % name, "joint step %s takes the operands as %s, not (a, b)" % (name, list(roles)), where=fn.loc())
            continue
        if cnt.get(mirror, 0) == k:
            n_pairs += 1
            rep.ok("R1.2", "mirrored:%s%s" % (name, list(roles)))
        else:
            rep.bad("R1.2", "unmirrored:%s%s" % (name, list(roles)), "step %s%s occurs %d time(s) but its mirror image %s%s %d time(s): the pipeline treats the operands differently, so relate(b,a) need not be the transpose" %
                    (name, list(roles), k, name, list(mirror[1]), cnt.get(mirror, 0)), where=fn.loc())
    rep.floor("R1.2", "mirrored per-operand steps", n_pairs, 10)


# ------------------------------------------------------------------------------------------------
def disjoint_table(rep, F):
    rep.rule("R1.3b", "compute_disjoint fills (I,E)<-dim a, (B,E)<-boundary dim a, (E,I)<-dim b, (E,B)<-boundary dim b, each only when non-empty")
    try:
        fn = F.one(r"^%s::compute_disjoint$" % IM, crates=("geo",))
        paths = [p for p in Symex(F, no_inline=[r"IntersectionMatrix::set$", r"::dimensions$", r"::boundary_dimensions$"]).run(fn) if p.kind == "ret"]
    except (KeyError, Unanalysable) as e:
        rep.bad("R1.3b", "anchor", str(e))
        return
    want_all = {("Inside", "Outside", "dimensions", "a2"), ("OnBoundary", "Outside", "boundary_dimensions", "a2"),
                ("Outside", "Inside", "dimensions", "a3"), ("Outside", "OnBoundary", "boundary_dimensions", "a3")}
    seen_all = set()
    ok = True
    for p in paths:
        sets = []
        for c in calls_of(p):
            if c[1].endswith("IntersectionMatrix::set"):
                a, b, d = c[2][1], c[2][2], c[2][3]
                ds = show(d)
                m = re.search(r"(boundary_dimensions|dimensions)\(&?\*?(a\d)", ds.replace("&", ""))
                sets.append((a[2] if a[0] == "adt" else show(a), b[2] if b[0] == "adt" else show(b), m.group(1) if m else ds[:30], m.group(2) if m else "?"))
        for s in sets:
            if s not in want_all:
                ok = False
                rep.bad("R1.3b", "cell:%s,%s" % (s[0], s[1]), "compute_disjoint sets cell (%s,%s) from %s of %s" % s, where=fn.loc())
            seen_all.add(s)
        # emptiness guards: a set from X happens only on paths where X != Empty
        for s in sets:
            guard = [v for t, v in p.pc if s[2] + "(" in show(t) and s[3] in show(t) and (s[2] != "dimensions" or "boundary_dimensions" not in show(t).split(s[3])[0][-25:])]
            if not guard:
                ok = False
                rep.bad("R1.3b", "unguarded:%s,%s" % (s[0], s[1]), "cell (%s,%s) is set without testing %s(%s) against Empty" % s, where=fn.loc())
    if seen_all != want_all:
        ok = False
        rep.bad("R1.3b", "missing-cells", "compute_disjoint never sets %s" % sorted(want_all - seen_all), where=fn.loc())
    if ok:
        rep.ok("R1.3b", "compute_disjoint[%d rows]" % len(paths), sample=sorted(seen_all))


# ------------------------------------------------------------------------------------------------
def boundary_tables(rep, F):
    """R1.4, decided by evaluation on constants (independent of how the test is written): determine_boundary(n) for n = 0..5; insert_boundary_point
    for each possible previous position of the node (the label query answered by a constant model)."""
    from ..symex import _ret
    rep.rule("R1.4", "mod-2 rule: determine_boundary(n) is OnBoundary iff n is odd; insert_boundary_point turns a node that is already OnBoundary into Inside and any other into OnBoundary")
    CP = "geo::algorithm::coordinate_position::CoordPos"
    try:
        fn = F.one(r"^%s::<[^>]*>::determine_boundary$" % GG, crates=("geo",))
        table = {}
        for n in range(6):
            ps = [p for p in Symex(F).run(fn, args=[("const", n)]) if p.kind == "ret"]
            if len(ps) != 1 or ps[0].pc or ps[0].ret[0] != "adt":
                raise Unanalysable("determine_boundary(%d) is not a constant: %s" % (n, [show_pc(p.pc)[:60] for p in ps][:2]))
            table[n] = ps[0].ret[2]
        if all(table[n] == ("OnBoundary" if n % 2 else "Inside") for n in table):
            rep.ok("R1.4", "determine_boundary", sample=table)
        else:
            rep.bad("R1.4", "determine_boundary", "determine_boundary(0..5) = %s, expected OnBoundary exactly for odd counts" % table, where=fn.loc())
    except (KeyError, Unanalysable) as e:
        rep.bad("R1.4", "determine_boundary:anchor", str(e))
    try:
        fn = F.one(r"^%s::<[^>]*>::insert_boundary_point$" % GG, crates=("geo",))
        table = {}
        for prev in (None, "OnBoundary", "Inside", "Outside"):
            val = ("adt", "core::option::Option", "None", ()) if prev is None else ("adt", "core::option::Option", "Some", (("adt", CP, prev, ()),))

            def pos_model(ex, st, call, args, val=val):
                return _ret(st, val)
            models = {}
            for g in F.find(r"label::Label::position$|label::Label::on_position$", crates=("geo",)):
                models[g.path] = pos_model
            ex = Symex(F, models=models, no_inline=[r"add_node_with_coordinate$", r"label_mut$", r"Label::set_on_position$", r"::set_on_position$"])
            ex.fold_ground_eq = True
            ps = [p for p in ex.run(fn) if p.kind == "ret"]
            sets = [c for p in ps for c in calls_of(p) if c[1].endswith("set_on_position")]
            if len(ps) != 1 or ps[0].pc or len(sets) != 1:
                raise Unanalysable("with previous position %s: %d paths, %d set_on_position calls, path condition [%s]" % (prev, len(ps), len(sets), show_pc(ps[0].pc)[:80] if ps else ""))
            newpos = sets[0][2][2]
            table[str(prev)] = newpos[2] if newpos[0] == "adt" else show(newpos)
        want = {"None": "OnBoundary", "OnBoundary": "Inside", "Inside": "OnBoundary", "Outside": "OnBoundary"}
        if table == want:
            rep.ok("R1.4", "insert_boundary_point", sample=table)
        else:
            rep.bad("R1.4", "insert_boundary_point", "previous position -> new position is %s, expected %s: three or more end points at one node must alternate boundary / interior" % (table, want), where=fn.loc())
    except (KeyError, Unanalysable) as e:
        rep.bad("R1.4", "insert_boundary_point", str(e))


def exactness(rep, F):
    rep.rule("R1.5", "the relate segment intersector decides only on orientation signs and coordinate comparisons (C03 R3.3)")
    T = c03.taint_of(F)
    try:
        fn = F.impl_method("geo::algorithm::relate::geomgraph::line_intersector::LineIntersector", r"RobustLineIntersector$", None, "compute_intersection", crates=("geo",))
    except KeyError as e:
        rep.bad("R1.5", "anchor", str(e))
        return
    bad = []
    for g in [fn] + F.closures_of(fn):
        bad += T.switch_labels(g)
    if bad:
        rep.bad("R1.5", "intersector", "a branch depends on %s" % sorted(bad[0][2])[0], where=fn.loc())
    else:
        rep.ok("R1.5", "intersector-clean")
    # the whole relate module: every branch that depends on rounded arithmetic must be one of the confirmed, harmless sites
    n = 0
    for g in F.lib_fns(("geo",)):
        if not g.path.startswith("geo::algorithm::relate::"):
            continue
        n += 1
        for bb, _, labels in T.switch_labels(g):
            for lab in sorted(labels):
                why = None
                for (fre, ore), reason in EXACT_EXEMPT.items():
                    if re.search(fre, g.path) and re.search(ore, lab):
                        why = reason
                if why is None:
                    rep.bad("R1.5", "relate-branch:%s" % short(g.path), "a branch of the relate pipeline depends on %s: topology decided on a rounded value "
                            "(nearly collinear / nearly parallel input flips it)" % lab, where=g.loc())
                    break
    rep.floor("R1.5", "relate functions scanned", n, 200)
    # the arguments of an orientation test in the relate module are coordinates as stored, not rounded differences: neither a value computed by
    # arithmetic in the calling function nor a struct field that some constructor fills from arithmetic (EdgeEndKey.delta = coord_1 - coord_0)
    from ..facts import op_place
    rel = [g for g in F.lib_fns(("geo",)) if g.path.startswith("geo::algorithm::relate::")]
    computed = {}
    for g in rel:
        for bb in g.normal_blocks():
            for st in g.stmts(bb):
                if st[0] == "assign" and isinstance(st[2], list) and st[2] and st[2][0] == "agg" and isinstance(st[2][1], dict) and st[2][1].get("adt"):
                    names = st[2][1].get("fields") or []
                    for i_, op in enumerate(st[2][2]):
                        pl = op_place(op)
                        if pl is None or i_ >= len(names):
                            continue
                        labs = T.real(T.labels(g, pl["l"]))
                        arith = sorted(l for l in labs if "arithmetic" in str(l))
                        if arith:
                            computed[(st[2][1]["adt"], names[i_])] = "%s (%s)" % (arith[0], short(g.path))
    n_sites = 0
    for g in rel:
        for c in g.calls():
            pth = (c.callee or c.path or "")
            if not pth.endswith("::orient2d"):
                continue
            n_sites += 1
            for k_, a in enumerate(c.args):
                pl = op_place(a)
                if pl is None:
                    continue
                why = None
                labs = [l for l in T.real(T.labels(g, pl["l"])) if "arithmetic" in str(l)]
                if labs and not pl["p"]:
                    why = "computed in place: %s" % sorted(labs)[0]
                # follow the single definition of the temporary back to a field read
                cur = pl
                for _ in range(4):
                    if cur["p"]:
                        break
                    d = None
                    for bb in g.normal_blocks():
                        for st in g.stmts(bb):
                            if st[0] == "assign" and st[1]["l"] == cur["l"] and not st[1]["p"] and isinstance(st[2], list) and st[2] and st[2][0] == "use":
                                d = op_place(st[2][1])
                    if d is None:
                        break
                    cur = d
                for e in cur["p"]:
                    if e[0] == "field" and len(e) >= 5 and (e[4], e[2]) in computed:
                        why = "it reads the field %s.%s, which is filled from %s" % (short(e[4]), e[2], computed[(e[4], e[2])])
                if why:
                    rep.bad("R1.5", "orient-arg:%s" % short(g.path), "argument %d of an orientation test in %s is not a stored coordinate: %s - the exact sign for a rounded point is not the sign for the true one" % (k_, short(g.path), why), where=g.loc())
                    break
    if n_sites < 1:
        rep.bad("R1.5", "orient-arg:floor", "no orientation test found in the relate module")
    else:
        rep.ok("R1.5", "orient-args[%d call sites, %d computed fields known]" % (n_sites, len(computed)))


# (function regex, label-origin regex) -> why a dependence on rounded arithmetic is harmless there
EXACT_EXEMPT = {
    (r"geomgraph::edge::Edge::<F>::add_intersection$", r"compute_edge_distance$"):
        "orders already computed intersection points along one edge (JTS edge distance); no decision about input coordinates",
    (r"RobustLineIntersector::compute_edge_distance$", r"compute_edge_distance$"): "same",
    (r"RelateOperation::.*compute_intersection_matrix$", r"rounded arithmetic sub in .*edge_end::EdgeEnd::<F>::new$"):
        "dx/dy of an edge end: only their signs are consumed (Quadrant), and the sign of an IEEE difference is exact",
}


# ------------------------------------------------------------------------------------------------
DIMS = ["Empty", "ZeroDimensional", "OneDimensional", "TwoDimensional"]
DADT = "geo::algorithm::dimensions::Dimensions"


def dimension_tables(rep, F):
    """R1.6: the disjoint shortcut fills the matrix from dimensions() / boundary_dimensions() of the operands; for the
    container types these are folds over the members.  Their path tables (two members unrolled) are evaluated on every
    assignment of member attributes and compared with: dimensions = max over members; boundary of a MultiLineString is
    empty iff every member is closed (or it has no 1-dimensional member), else 0-dimensional; boundary of a collection =
    max over member boundaries; boundary of an areal container is one less than its dimension."""
    import itertools
    from ..evalterm import Enum, NoModel
    from ..memberfold import select
    rep.rule("R1.6", "dimensions() / boundary_dimensions() / is_closed of the container types are the right folds over their members (tables on all member assignments, two members unrolled)")
    HD = "geo::algorithm::dimensions::HasDimensions"
    D = lambda i: Enum(DADT, DIMS[i])

    def member_choices(kind):
        # (dimensions, boundary_dimensions, is_closed, is_empty) of one member
        if kind == "LineString":
            return [dict(dimensions=D(0), boundary_dimensions=D(0), is_closed=True, is_empty=True),      # first() == last() == None
                    dict(dimensions=D(1), boundary_dimensions=D(0), is_closed=True, is_empty=False),     # all coordinates equal

                    dict(dimensions=D(2), boundary_dimensions=D(0), is_closed=True, is_empty=False),
                    dict(dimensions=D(2), boundary_dimensions=D(1), is_closed=False, is_empty=False)]
        if kind == "Polygon":
            return [dict(dimensions=D(0), boundary_dimensions=D(0), is_empty=True),
                    dict(dimensions=D(1), boundary_dimensions=D(0), is_empty=False),
                    dict(dimensions=D(2), boundary_dimensions=D(1), is_empty=False),
                    dict(dimensions=D(3), boundary_dimensions=D(2), is_empty=False)]
        return [dict(dimensions=D(0), boundary_dimensions=D(0), is_empty=True),
                dict(dimensions=D(1), boundary_dimensions=D(0), is_empty=False),
                dict(dimensions=D(2), boundary_dimensions=D(0), is_empty=False),
                dict(dimensions=D(2), boundary_dimensions=D(1), is_empty=False),
                dict(dimensions=D(3), boundary_dimensions=D(2), is_empty=False)]

    def idx(e):
        return DIMS.index(e.variant)

    def spec_dims(ms):
        return max([idx(m["dimensions"]) for m in ms] or [0])

    def spec_bdims(kind, ms):
        if kind == "LineString":
            d = spec_dims(ms)
            if d < 2 or all(m["is_closed"] for m in ms):
                return 0
            return 1
        if kind == "Polygon":
            return max(spec_dims(ms) - 1, 0)
        return max([idx(m["boundary_dimensions"]) for m in ms] or [0])

    cases = [("MultiLineString", r"multi_line_string::MultiLineString<C>$", "LineString"),
             ("MultiPolygon", r"multi_polygon::MultiPolygon<C>$", "Polygon"),
             ("GeometryCollection", r"geometry_collection::GeometryCollection<C>$", "Geometry")]
    attrs = ("dimensions", "boundary_dimensions", "is_closed", "is_empty")
    for cname, cre, mkind in cases:
        for meth in ("dimensions", "boundary_dimensions"):
            key = "%s::%s" % (cname, meth)
            try:
                fn = F.impl_method(HD, cre, None, meth, crates=("geo",))
                from ..report import thorough
                deep = thorough()
                # geo's own free helpers are inlined (a table may be factored out into one); the members' trait methods stay uninterpreted
                paths = Symex(F, inline_crates=("geo",), loop_bound=4 if deep else 3,
                              no_inline=[r"HasDimensions>::\w+$", r"::dimensions$", r"::boundary_dimensions$", r"::is_closed$", r"::is_empty$", r"::iter$", r"::iter_mut$", r"IntoIterator"]).run(fn)
            except (KeyError, Unanalysable) as e:
                rep.bad("R1.6", key + ":anchor", str(e))
                continue
            n = 0
            bad = None
            for k in ((0, 1, 2, 3) if deep else (0, 1, 2)):
                for ms in itertools.product(member_choices(mkind), repeat=k):
                    ms = list(ms)
                    whole = {"dimensions": D(spec_dims(ms)), "is_closed": all(m.get("is_closed", True) for m in ms),
                             "is_empty": all(m["is_empty"] for m in ms), "boundary_dimensions": D(spec_bdims(mkind, ms))}
                    whole.pop(meth)
                    try:
                        hits = [(p, ev) for p, ev in select(F, paths, ms, whole, attrs) if p.kind != "cut"]
                        if len(hits) != 1:
                            bad = "assignment %s selects %d rows" % (describe(ms), len(hits))
                            break
                        p, ev = hits[0]
                        if p.kind == "panic":
                            bad = "panics for members %s" % describe(ms)
                            break
                        got = idx(ev.ev(p.ret))
                    except NoModel as e:
                        bad = "not a function of the members' dimensions / closedness (%s)" % e
                        break
                    want = spec_dims(ms) if meth == "dimensions" else spec_bdims(mkind, ms)
                    n += 1
                    if got != want:
                        bad = "for members %s the result is %s, expected %s" % (describe(ms), DIMS[got], DIMS[want])
                        break
                if bad:
                    break
            if bad:
                rep.bad("R1.6", key, bad + (": the disjoint-envelope shortcut of relate then writes a wrong boundary/interior cell" if meth == "boundary_dimensions" else ""), where=fn.loc())
            else:
                rep.ok("R1.6", "%s[%d assignments]" % (key, n))
    # MultiLineString::is_closed on 0..3 abstract members, every assignment of the members' own is_closed: true exactly when every member is closed
    # (value-level; an earlier form required the call `Iterator::all`, which an equivalent explicit loop does not contain)
    try:
        import itertools as _it
        from ..symex import bare as _bare
        fn = F.one(r"^geo_types::geometry::multi_line_string::MultiLineString::<T>::is_closed$", crates=("geo_types",))
        bad = None
        rows = 0
        for K in range(4):
            members = tuple(("opaque", "m%d" % i_) for i_ in range(K))
            mls = ("&", ("adt", "geo_types::geometry::multi_line_string::MultiLineString", "MultiLineString", (("call", "vec!", (("array", members),)),)))
            ex = Symex(F, concrete_iters=True, loop_bound=K + 3, inline_crates=("geo_types",), max_paths=2000, no_inline=[r"LineString::<T>::is_closed$"])
            for p in ex.run(fn, args=[mls]):
                if p.kind == "cut":
                    continue
                val = {}
                for t, v in p.pc:
                    mm = re.findall(r"opaque\(m(\d)\)", _bare(t))
                    if "is_closed(" in _bare(t) and len(set(mm)) == 1:
                        val[int(mm[0])] = bool(v)
                    else:
                        bad = "decides on `%s`" % _bare(t)[:100]
                r = p.ret
                if p.kind != "ret":
                    bad = "a path does not return"
                if bad:
                    break
                outs = [(val, bool(r[1]))] if r[0] == "const" else None
                if outs is None:
                    mm = re.findall(r"opaque\(m(\d)\)", _bare(r))
                    if "is_closed(" in _bare(r) and len(set(mm)) == 1:
                        outs = [({**val, int(mm[0]): x}, x) for x in (False, True)]
                    else:
                        bad = "returns `%s`" % _bare(r)[:100]
                        break
                for v_, got in outs:
                    free = [i_ for i_ in range(K) if i_ not in v_]
                    wants = {all({**v_, **dict(zip(free, bits))}[i_] for i_ in range(K)) for bits in _it.product((False, True), repeat=len(free))}
                    rows += 1
                    if wants != {got}:
                        bad = "%d member(s) with is_closed = %s: returns %s, expected %s" % (K, v_, got, sorted(wants))
                        break
                if bad:
                    break
            if bad:
                break
        if bad:
            rep.bad("R1.6", "MultiLineString::is_closed", "MultiLineString::is_closed %s (it must be true exactly when every member is closed)" % bad, where=fn.loc())
        else:
            rep.ok("R1.6", "MultiLineString::is_closed=all[%d rows]" % rows)
    except (KeyError, Unanalysable) as e:
        rep.bad("R1.6", "MultiLineString::is_closed:anchor", str(e))


def describe(ms):
    return "[" + ", ".join("%s%s" % (m["dimensions"].variant, "/closed" if m.get("is_closed") else "") for m in ms) + "]"
