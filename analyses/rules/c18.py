"""C18 — structural invariants of the geometry types survive every API history.

Inductive argument over all histories: (R18.1) only the defining module can write the ring / corner
fields and none of its functions leaks a `&mut` to them; (R18.2) every function that writes them or
builds the aggregate re-establishes "every ring closed" on every normally-returning MIR path;
(R18.3) `LineString::close` really closes; (R18.4) `Rect` constructors/setters return only with
min <= max entailed by the comparisons taken on the path; (R18.5) conversions are copies in order.
"""
import re
from ..facts import Facts, short
from ..symex import Symex, Unanalysable, show, show_pc
from .. import idioms

LEVEL = "proof"
POLY = "geo_types::geometry::polygon::Polygon"
RECT = "geo_types::geometry::rect::Rect"
LS = "geo_types::geometry::line_string::LineString"
CLOSE_RE = r"geo_types::geometry::line_string::LineString::<T>::close$"
FACTS = [None]       # the fact base the path views belong to (set per configuration)
CTL = "geo_verif_roots::controls::"


def run(rep, tier):
    rep.explanation = ("Inductive invariant over all API histories, discharged per function on the type-checked MIR of the "
                       "current tree: encapsulation (who can write the fields), re-establishment of the invariant on every "
                       "normally returning path of every writer (abstract path enumeration, loops unrolled twice), exactness of "
                       "close(), ordering entailment for Rect, copy-provenance of conversions.")
    rep.trusted = ["rustc MIR construction and trait resolution (nightly)", "models of core::cmp / Try / Index / Clone in analyses/symex.py",
                   "opaque treatment of std Vec / slice iterator calls (IterMut::next yields each element once)"]
    rep.assumptions = ["panicking user closures are outside the property's quantifier (unwind paths are not analysed)",
                       "coordinates are totally ordered where Rect is concerned (no NaN), as the property states"]
    configs = ["default"] + (["allfeat"] if tier == "thorough" else [])
    for cfg in configs:
        F = Facts(cfg)
        FACTS[0] = F
        tag = "" if cfg == "default" else "[%s]" % cfg
        polygon_rules(rep, F, POLY, "geo_types::geometry::polygon", tag, floor_writers=6)
        rect_rules(rep, F, tag)
        if cfg == "default":
            close_rule(rep, F)
            conversion_rules(rep, F)
            from . import gt_tables
            gt_tables.sequence_tables(rep, F, "R18.7")
            gt_tables.collection_tables(rep, F, "R18.8")
            gt_tables.run(rep, F, "R18.6")       # accessors / constructors return the stored coordinates (Rect::new normalises, nothing else changes them)
            # positive controls
            rep.expect_control("R18.2")
            sub = _Sub(rep)
            polygon_rules(sub, F, CTL + "CPoly", "geo_verif_roots::controls", "", floor_writers=0, crates=("geo_verif_roots",))
            rep.control("R18.2", any(k.startswith("R18.2") for k in sub.bad_keys))
            rep.expect_control("R18.4")
            sub = _Sub(rep)
            rect_rules(sub, F, "", adt=CTL + "CRect", crates=("geo_verif_roots",), floors=False)
            rep.control("R18.4", any(k.startswith("R18.4") for k in sub.bad_keys))


def _ptr_strip(ty):
    """Remove pointer-representation wrappers: a transmute between two pointer types to the same pointee (what
    `vec!`/Box expand to) does not reinterpret the pointee."""
    prev = None
    while prev != ty:
        prev = ty
        ty = ty.strip()
        for pre in ("*const ", "*mut ", "&mut ", "&"):
            if ty.startswith(pre):
                ty = ty[len(pre):]
        m = re.match(r"core::ptr::(?:non_null::NonNull|unique::Unique)<(.*)>$", ty)
        if m:
            ty = m.group(1)
    return ty


class _Sub:
    """Collects rule results for the positive controls without reporting them."""

    def __init__(self, rep):
        self.bad_keys = []
        self.info = {}

    def rule(self, *a):
        pass

    def ok(self, *a, **k):
        pass

    def bad(self, rule, key, msg, where=None, detail=None):
        self.bad_keys.append("%s:%s" % (rule, key))

    def floor(self, *a):
        pass


# ------------------------------------------------------------------------------------------------
def syntactic_touch(fn, adt):
    """(builds aggregate?, writes/mut-borrows a field?, reads a field?) of `adt` in fn's MIR."""
    agg = wr = rd = False

    def place_fields(p):
        return [e for e in p["p"] if e[0] == "field" and len(e) > 4 and e[4] == adt]

    for bb in fn.normal_blocks():
        for st in fn.stmts(bb):
            if st[0] != "assign":
                continue
            if place_fields(st[1]):
                wr = True
            rv = st[2]
            if rv[0] == "agg" and isinstance(rv[1], dict) and rv[1].get("adt") == adt:
                agg = True
            if rv[0] in ("ref", "rawptr") and place_fields(rv[2]):
                if rv[1] == "mut" or (rv[0] == "rawptr" and "Mut" in rv[1]):
                    wr = True
                else:
                    rd = True
            if rv[0] == "use":
                for k in ("copy", "move"):
                    if k in rv[1] and place_fields(rv[1][k]):
                        rd = True
        t = fn.term(bb)
        if t["k"] == "call" and place_fields(t["dest"]):
            wr = True
    return agg, wr, rd


def pure_existing(t):
    """Term denoting (part of) a value that existed before the call: built from arguments only."""
    if not isinstance(t, tuple):
        return True
    if t[0] in ("arg",):
        return True
    if t[0] in ("field", "deref", "as", "&"):
        return pure_existing(t[1])
    if t[0] == "index":
        return pure_existing(t[1])
    return False


class PathView:
    def __init__(self, path):
        self.path = path
        self.events = {}
        for i, e in enumerate(path.trace):
            if e[0] == "call" and e[3] is not None:
                self.events[e[3]] = (i, e)

    def event(self, uid):
        return self.events.get(uid, (None, None))[1]


def closed_ring(pv, v, close_re):
    if v[0] == "&":
        v = v[1]
    if v[0] == "field" and v[2] == "exterior" and pure_existing(v[1]):
        return True, "untouched ring of an existing polygon"
    if v[0] == "havoc":
        ev = pv.event(v[1])
        if ev is not None and re.search(close_re, ev[1]):
            return True, "closed by close()#%d" % v[1]
        return False, "last effect on the ring is %s, not close()" % (short(ev[1]) if ev else "?")
    if v[0] in ("index", "field") and closed_elem_of_existing(v):
        return True, "ring of an existing polygon"
    return False, "ring value %s was never passed to close()" % show(v)[:120]


def closed_elem_of_existing(v):
    # element of the interiors of an existing polygon
    while v[0] in ("index", "as", "deref", "&"):
        v = v[1]
    return v[0] == "field" and v[2] in ("interiors", "exterior") and pure_existing(v[1])


def closure_closes(pv, cl, close_re):
    """the closure's body (every returning path) passes its own parameter, the `&mut` element, to the closing function"""
    while cl[0] in ("&", "ref") and cl[0] == "&":
        cl = cl[1]
    if cl[0] != "closure":
        return False
    F = FACTS[0]
    g = F.by_key.get(cl[1])
    if g is None:
        return False
    try:
        ps = [p for p in Symex(F, no_inline=[CLOSE_RE], loop_bound=1).run(g) if p.kind != "cut"]
    except Unanalysable:
        return False
    if not ps:
        return False
    for p in ps:
        if p.kind != "ret":
            return False
        hit = False
        for e in p.trace:
            if e[0] == "call" and re.search(close_re, e[1]) and e[2] and show(e[2][0]).replace("&", "").replace("*", "") in ("a2", "mut a2"):
                hit = True
        if not hit:
            return False
    return True


def closed_vec(pv, v, close_re, depth=0):
    if v[0] == "&":
        v = v[1]
    if v[0] == "field" and v[2] == "interiors" and pure_existing(v[1]):
        return True, "untouched interiors of an existing polygon"
    if v[0] == "call" and re.search(r"alloc::vec::Vec::<T>::new$|alloc::vec::Vec::<T, A>::new_in$|Default::default$", v[1]):
        return True, "empty vector"
    if v[0] == "havoc" and depth < 20:
        ev = pv.event(v[1])
        if ev is None:
            return False, "unknown effect"
        if idioms.is_mut_iter_creation(ev):
            ok, why = idioms.complete_apply_all(pv.path, v[1], close_re, closure_applies=lambda cl: closure_closes(pv, cl, close_re))
            if ok:
                return True, "close-all loop over the vector (%s)" % why
            return False, "iteration over the rings does not close every ring: %s" % why
        if re.search(r"alloc::vec::Vec::<T, A>::push$", ev[1]):
            pushed = ev[2][1] if len(ev[2]) > 1 else None
            if pushed is not None:
                ok, why = closed_ring(pv, pushed, close_re)
                if ok:
                    return closed_vec(pv, v[2], close_re, depth + 1)
                return False, "pushed ring is not closed: %s" % why
        return False, "last effect on the ring vector is %s, which is not a close-all loop" % short(ev[1])
    return False, "ring vector %s was never closed" % show(v)[:120]


def polygon_rules(rep, F, adt, module, tag, floor_writers, crates=("geo_types", "geo")):
    rep.rule("R18.1", "ring fields are private, written only inside the defining module, and no writer returns a &mut into them")
    rep.rule("R18.2", "every writer / constructor re-closes every touched ring on every normally returning path (Err exits of `?` included)")
    a = F.adts.get(adt)
    if a is None:
        rep.bad("R18.1", "adt-missing" + tag, "type %s not found" % adt)
        return
    fields = a["variants"][0]["fields"]
    names = [f["name"] for f in fields]
    for f in fields:
        if f["vis"] == "pub" or f["vis"] == "crate":
            rep.bad("R18.1", "field-vis:%s.%s%s" % (short(adt), f["name"], tag),
                    "field `%s` of %s is visible outside its module (%s): any code can break the ring invariant" % (f["name"], short(adt), f["vis"]),
                    where=a["span"]["file"])
        else:
            rep.ok("R18.1", "field-vis:%s.%s%s" % (short(adt), f["name"], tag), f["vis"])
    if names[:2] != ["exterior", "interiors"]:
        rep.bad("R18.1", "layout" + tag, "unexpected field layout %s" % names)
        return
    writers = []
    readers = 0
    for fn in F.lib_fns(crates):
        agg, wr, rd = syntactic_touch(fn, adt)
        if agg or wr:
            writers.append(fn)
        elif rd:
            readers += 1
    rep.floor("R18.1", "writers-of-%s%s" % (short(adt), tag), len(writers), floor_writers)
    rep.info.setdefault("polygon_writers" + tag, [short(f.path) for f in writers])
    rep.info.setdefault("polygon_field_readers" + tag, readers)
    # transmutes mentioning the type
    for fn in F.lib_fns(crates):
        for bb, pl, rv, line in fn.all_assigns():
            if rv[0] == "cast" and rv[1] == "Transmute" and (adt in rv[3] or adt in rv[4]) and _ptr_strip(rv[3]) != _ptr_strip(rv[4]):
                rep.bad("R18.1", "transmute:%s%s" % (fn.path, tag), "transmute involving %s" % short(adt), where="%s:%d" % (fn.rel_file, line))
    ex = Symex(F, no_inline=[CLOSE_RE], loop_bound=2)
    ex.watch_adts = {adt}
    for fn in writers:
        key = "%s%s" % (fn.path, tag)
        if fn.module != module and not (fn.module or "").startswith(module + "::"):
            rep.bad("R18.1", "writer-outside-module:" + key, "writes ring fields of %s outside %s" % (short(adt), module), where=fn.loc())
        ret_ty = fn.locals[0]
        if "&mut" in ret_ty or "IterMut" in ret_ty or "*mut" in ret_ty:
            rep.bad("R18.1", "leaks-mut:" + key, "returns `%s`: a mutable reference into the rings escapes the closing step" % short(ret_ty), where=fn.loc())
        else:
            rep.ok("R18.1", "no-mut-leak:" + key)
        try:
            paths = ex.run(fn)
        except Unanalysable as e:
            rep.bad("R18.2", "unanalysable:" + key, "cannot enumerate the paths of a ring writer (%s); fail closed" % e, where=fn.loc())
            continue
        nret = 0
        for p in paths:
            if p.kind != "ret":
                continue
            nret += 1
            pv = PathView(p)
            problems = []
            # aggregates built on this path
            for e in p.trace:
                if e[0] == "agg" and e[1] == adt:
                    ok, why = closed_ring(pv, e[3][0], CLOSE_RE)
                    if not ok:
                        problems.append(("exterior", "constructs %s with an exterior that is not closed: %s" % (short(adt), why)))
                    ok, why = closed_vec(pv, e[3][1], CLOSE_RE)
                    if not ok:
                        problems.append(("interiors", "constructs %s with interiors that are not closed: %s" % (short(adt), why)))
            # &mut self style arguments
            for i in range(1, fn.arg_count + 1):
                ty = fn.locals[i]
                if ty.startswith("&mut ") and ty[5:].startswith(adt):
                    final = p.st.mem.get(("S", ("arg", i)))
                    if final is None:
                        continue
                    ext = ex.project(p.st, final, ("field", 0, "exterior"))
                    ints = ex.project(p.st, final, ("field", 1, "interiors"))
                    ext = ex.canon(p.st, ext)
                    ints = ex.canon(p.st, ints)
                    ok, why = closed_ring(pv, ext, CLOSE_RE)
                    if not ok:
                        problems.append(("exterior", "returns with the exterior possibly open: %s" % why))
                    ok, why = closed_vec(pv, ints, CLOSE_RE)
                    if not ok:
                        problems.append(("interiors", "returns with an interior ring possibly open: %s" % why))
            exit_desc = show(p.ret)[:60]
            if problems:
                for fld, msg in problems:
                    rep.bad("R18.2", "%s:%s" % (key, fld), "%s — on the path [%s] returning %s" % (msg, show_pc(p.pc)[:200], exit_desc),
                            where=fn.loc(), detail={"path_condition": show_pc(p.pc)[:600], "returns": exit_desc})
            else:
                rep.ok("R18.2", "%s:exit[%s|%s]" % (key, show_pc(p.pc)[:80], exit_desc),
                       sample={"fn": short(fn.path), "path": show_pc(p.pc)[:160], "returns": exit_desc})
        if nret == 0:
            rep.bad("R18.2", "no-return-path:" + key, "no normally returning path found", where=fn.loc())


# ------------------------------------------------------------------------------------------------
def close_rule(rep, F):
    """R18.3: LineString::close on every coordinate sequence of length 0..4 over two concrete coordinates (31 line strings, comparisons between
    the constants are decided): a closed or empty line string is left as it is, an open one gets a copy of its first coordinate appended - so
    first == last afterwards, and nothing else changes.  (An earlier form of this rule looked for the atom `first() == last()` in the path
    table and alarmed on an equivalent `match (first, last)`; the table decides the same clause on values.)"""
    import itertools
    rep.rule("R18.3", "LineString::close (every sequence of 0..4 coordinates over two concrete values): no-op when empty or first == last, otherwise a copy of element 0 is appended; nothing else changes")
    try:
        fn = F.one(CLOSE_RE)
    except KeyError as e:
        rep.bad("R18.3", "anchor", str(e))
        return
    GTc = "geo_types::geometry::coord::Coord"
    A = ("adt", GTc, "Coord", (("const", 0), ("const", 0)))
    B = ("adt", GTc, "Coord", (("const", 1), ("const", 5)))
    LS = "geo_types::geometry::line_string::LineString"
    n = 0
    seen_push = seen_noop = False
    for k in range(5):
        for seq in itertools.product((A, B), repeat=k):
            ls = ("adt", LS, "LineString", (("call", "vec!", (("array", tuple(seq)),)),))
            ex = Symex(F, concrete_iters=True, loop_bound=8, inline_crates=("geo_types",), max_paths=200)
            ex.fold_ground_eq = True
            name = "".join("A" if c is A else "B" for c in seq) or "empty"
            try:
                ps = [p for p in ex.run(fn, args=[("arg", 1)], mem={("arg", 1): ls}) if p.kind != "cut"]
            except Unanalysable as e:
                rep.bad("R18.3", "unanalysable", "close() on the line string %s: %s" % (name, e), where=fn.loc())
                return
            if len(ps) != 1 or ps[0].kind != "ret" or ps[0].pc:
                rep.bad("R18.3", "table", "close() on the concrete line string %s has %d paths (%s): its effect depends on more than the coordinates" % (
                    name, len(ps), "; ".join("%s %s" % (p.kind, show_pc(p.pc)[:80]) for p in ps[:2])), where=fn.loc())
                return
            fin = ex.canon(ps[0].st, ps[0].st.mem.get(("S", ("arg", 1))))
            arr = find_arrays(fin, [])
            got = list(arr[0][1]) if arr else None
            want = list(seq) if (not seq or seq[0] == seq[-1]) else list(seq) + [seq[0]]
            if got != want:
                rep.bad("R18.3", "table", "close() turns the line string %s into %s, expected %s" % (
                    name, "".join("A" if c == A else "B" if c == B else "?" for c in (got or [])) if got is not None else "?", "".join("A" if c is A else "B" for c in want) or "empty"), where=fn.loc())
                return
            n += 1
            if len(want) > len(seq):
                seen_push = True
            else:
                seen_noop = True
    if seen_push and seen_noop:
        rep.ok("R18.3", "close-table[%d line strings]" % n)
    else:
        rep.bad("R18.3", "table-incomplete", "the catalogue lacks an open / a closed line string")


def entails_le(pc, a, b):
    """Does the path condition entail a <= b (total order)?"""
    if a == b:
        return True
    d = dict(pc)
    if d.get(("cmp", "lt", a, b)) == 1 or d.get(("cmp", "le", a, b)) == 1:
        return True
    if d.get(("cmp", "lt", b, a)) == 0 or d.get(("cmp", "le", b, a)) == 0:
        return True
    return False


def rect_rules(rep, F, tag, adt=RECT, crates=("geo_types", "geo"), floors=True):
    rep.rule("R18.4", "Rect: fields private; every constructor/setter returns normally only on paths whose comparisons entail min.x<=max.x and min.y<=max.y")
    a = F.adts.get(adt)
    if a is None:
        rep.bad("R18.4", "adt-missing" + tag, "type %s not found" % adt)
        return
    for f in a["variants"][0]["fields"]:
        if f["vis"] in ("pub", "crate"):
            rep.bad("R18.4", "field-vis:%s%s" % (f["name"], tag), "Rect field `%s` is visible outside its module (%s)" % (f["name"], f["vis"]), where=a["span"]["file"])
        else:
            rep.ok("R18.4", "field-vis:%s%s" % (f["name"], tag))
    writers = []
    for fn in F.lib_fns(crates):
        agg, wr, rd = syntactic_touch(fn, adt)
        if agg or wr:
            writers.append(fn)
    if floors:
        rep.floor("R18.4", "writers-of-Rect" + tag, len(writers), 3)
    rep.info.setdefault("rect_writers" + tag, [short(f.path) for f in writers])
    ex = Symex(F)
    ex.watch_adts = {adt}
    for fn in writers:
        key = fn.path + tag
        ret_ty = fn.locals[0]
        if "&mut" in ret_ty:
            rep.bad("R18.4", "leaks-mut:" + key, "returns `%s`" % short(ret_ty), where=fn.loc())
        try:
            paths = ex.run(fn)
        except Unanalysable as e:
            rep.bad("R18.4", "unanalysable:" + key, "cannot enumerate the paths of a Rect writer (%s); fail closed" % e, where=fn.loc())
            continue
        for p in paths:
            if p.kind != "ret":
                continue
            rects = []
            for e in p.trace:
                if e[0] == "agg" and e[1] == adt:
                    rects.append(("constructs", e[3][0], e[3][1]))
            for i in range(1, fn.arg_count + 1):
                ty = fn.locals[i]
                if ty.startswith("&mut ") and ty[5:].startswith(adt):
                    final = p.st.mem.get(("S", ("arg", i)))
                    if final is not None:
                        mn = ex.canon(p.st, ex.project(p.st, final, ("field", 0, "min")))
                        mx = ex.canon(p.st, ex.project(p.st, final, ("field", 1, "max")))
                        rects.append(("leaves", mn, mx))
            bad = None
            for what, mn, mx in rects:
                if is_derived_copy(mn, mx):
                    continue
                for axis, idx in (("x", 0), ("y", 1)):
                    lo = ex.project(p.st, mn, ("field", idx, axis))
                    hi = ex.project(p.st, mx, ("field", idx, axis))
                    if not entails_le(p.pc, lo, hi):
                        bad = "%s a Rect whose min.%s <= max.%s is not entailed by the comparisons on the path [%s] (min.%s = %s, max.%s = %s)" % (
                            what, axis, axis, show_pc(p.pc)[:160], axis, show(lo)[:60], axis, show(hi)[:60])
                        break
                if bad:
                    break
            if bad:
                rep.bad("R18.4", "order:" + key, bad, where=fn.loc())
            elif rects:
                rep.ok("R18.4", "order:%s[%s]" % (key, show_pc(p.pc)[:100]), sample={"fn": short(fn.path), "path": show_pc(p.pc)[:160]})


def is_derived_copy(mn, mx):
    """min and max copied together from one existing Rect (Clone, field-wise copy): ordered by induction."""
    if mn[0] == "field" and mx[0] == "field" and mn[2] == "min" and mx[2] == "max" and mn[1] == mx[1] and pure_existing(mn[1]):
        return True
    return False


# ------------------------------------------------------------------------------------------------
def find_arrays(t, out):
    if isinstance(t, tuple) and t:
        if t[0] == "array":
            out.append(t)
        for x in (t[1:] if isinstance(t[0], str) else t):
            if isinstance(x, tuple):
                find_arrays(x, out)
    return out


def conversion_rules(rep, F):
    rep.rule("R18.5", "conversions copy the coordinates in order: Geometry<->concrete types move the payload of the same variant; Line/Triangle/Rect expand to their corners in order")
    GEOM = "geo_types::geometry::Geometry"
    ex = Symex(F, no_inline=[CLOSE_RE])
    variants = [v["name"] for v in F.adts[GEOM]["variants"]]
    n_from = n_try = 0
    for im in F.impls:
        if im["crate"] != "geo_types":
            continue
        # From<X> for Geometry<T>
        if im.get("trait") == "core::convert::From" and im["self_ty"].startswith(GEOM + "<"):
            fn = F.impl_fn(im, "from")
            if fn is None:
                continue
            src = im["trait_args"][1]
            vname = short(src).split("<")[0]
            if vname not in variants:
                continue
            n_from += 1
            key = "From<%s> for Geometry" % vname
            try:
                ps = [p for p in ex.run(fn) if p.kind == "ret"]
            except Unanalysable as e:
                rep.bad("R18.5", key + ":unanalysable", str(e), where=fn.loc())
                continue
            good = len(ps) == 1 and ps[0].ret == ("adt", GEOM, vname, (("arg", 1),)) and not [e for e in ps[0].trace if e[0] == "call"]
            if good:
                rep.ok("R18.5", key, sample=show(ps[0].ret))
            else:
                rep.bad("R18.5", key, "does not wrap its argument unchanged in variant %s: %s" % (vname, [show(p.ret)[:100] for p in ps][:3]), where=fn.loc())
        # TryFrom<Geometry<T>> for X
        if im.get("trait") == "core::convert::TryFrom" and len(im["trait_args"]) > 1 and im["trait_args"][1].startswith(GEOM + "<"):
            fn = F.impl_fn(im, "try_from")
            if fn is None:
                continue
            vname = short(im["self_ty"]).split("<")[0]
            if vname not in variants:
                continue
            n_try += 1
            key = "TryFrom<Geometry> for %s" % vname
            try:
                ps = [p for p in ex.run(fn) if p.kind == "ret"]
            except Unanalysable as e:
                rep.bad("R18.5", key + ":unanalysable", str(e), where=fn.loc())
                continue
            vidx = variants.index(vname)
            oks = [p for p in ps if p.ret[0] == "adt" and p.ret[2] == "Ok"]
            good = bool(oks)
            for p in oks:
                d = dict(p.pc)
                disc = [(t, v) for t, v in p.pc if t[0] == "discr" and t[1] == ("arg", 1)]
                payload = p.ret[3][0]
                if not disc or disc[0][1] != vidx or payload != ("field", ("as", ("arg", 1), vname), "0"):
                    good = False
            for p in ps:
                if p not in oks:
                    disc = [(t, v) for t, v in p.pc if t[0] == "discr" and t[1] == ("arg", 1)]
                    if disc and disc[0][1] == vidx:
                        good = False
            if good:
                rep.ok("R18.5", key, sample=[show_pc(p.pc) + " => " + show(p.ret)[:80] for p in oks][:1])
            else:
                rep.bad("R18.5", key, "does not return exactly the untouched payload of variant %s" % vname, where=fn.loc())
    rep.floor("R18.5", "From<X> for Geometry impls", n_from, 9)
    rep.floor("R18.5", "TryFrom<Geometry> impls", n_try, 9)

    # corner expansions
    def corners_of(term_fn, expect, key, fn):
        try:
            ps = [p for p in ex.run(fn) if p.kind == "ret"]
        except Unanalysable as e:
            rep.bad("R18.5", key + ":unanalysable", str(e), where=fn.loc())
            return
        if not ps:
            rep.bad("R18.5", key, "no returning path", where=fn.loc())
            return
        for p in ps:
            arrs = find_arrays(p.ret, [])
            for e in p.trace:
                if e[0] in ("call", "enter"):
                    for a in e[2]:
                        find_arrays(a, arrs)
            got = None
            for a in arrs:
                els = tuple(term_fn(x) for x in a[1])
                if els == expect:
                    got = els
                    break
            if got is None:
                seen = [tuple(term_fn(x) for x in a[1]) for a in arrs][:3]
                rep.bad("R18.5", key, "corner sequence %s not found; saw %s" % (list(expect), seen), where=fn.loc())
                return
        rep.ok("R18.5", key, sample=list(expect))

    def simp(t):
        # describe a coordinate term relative to arg1: start/end, 0/1/2, or (min|max).x,(min|max).y
        s = show(t)
        s = s.replace("*a1", "a1").replace("&", "")
        return s

    try:
        f = F.impl_method("core::convert::From", r"^geo_types::geometry::line_string::LineString<T>$", r"^geo_types::geometry::line::Line<T>$", "from")
        corners_of(simp, ("a1.start", "a1.end"), "From<Line> for LineString", f)
        f = F.impl_method("core::convert::From", r"^geo_types::geometry::line_string::LineString<T>$", r"^&.*geo_types::geometry::line::Line<T>$", "from")
        corners_of(simp, ("a1.start", "a1.end"), "From<&Line> for LineString", f)
        f = F.impl_method("core::convert::From", r"^geo_types::geometry::polygon::Polygon<T>$", r"^geo_types::geometry::triangle::Triangle<T>$", "from")
        corners_of(simp, ("a1.0", "a1.1", "a1.2", "a1.0"), "From<Triangle> for Polygon", f)
        f = F.one(r"geo_types::geometry::triangle::Triangle::<T>::to_polygon$")
        corners_of(simp, ("a1.0", "a1.1", "a1.2", "a1.0"), "Triangle::to_polygon", f)
    except KeyError as e:
        rep.bad("R18.5", "anchor-missing", str(e))
    # Rect corner walks: each walk must visit the four corners {min,max}^2 once, consecutive corners differing in one
    # axis, counter-clockwise (given min <= max), and return to the first where the target is a ring.
    def rect_simp(t):
        s = show(t).replace("*a1", "a1").replace("&", "")
        m = re.match(r"Coord::Coord\((.*), (.*)\)$", s) or re.match(r"\(([^(),]*), ([^(),]*)\)$", s)
        if m:
            def ax(z):
                z = z.strip()
                for pat, val in ((r"a1\.min\.x$|min\(a1\)\.x$", "x0"), (r"a1\.max\.x$|max\(a1\)\.x$", "x1"), (r"a1\.min\.y$|min\(a1\)\.y$", "y0"), (r"a1\.max\.y$|max\(a1\)\.y$", "y1")):
                    if re.search(pat, z):
                        return val
                return z
            return (ax(m.group(1)), ax(m.group(2)))
        if re.search(r"a1\.min$|min\(a1\)$", s):
            return ("x0", "y0")
        if re.search(r"a1\.max$|max\(a1\)$", s):
            return ("x1", "y1")
        return s

    def check_rect_walk(key, fn, ring):
        try:
            ps = [p for p in ex.run(fn) if p.kind == "ret"]
        except Unanalysable as e:
            rep.bad("R18.5", key + ":unanalysable", str(e), where=fn.loc())
            return
        for p in ps:
            arrs = find_arrays(p.ret, [])
            for e in p.trace:
                if e[0] in ("call", "enter"):
                    for a in e[2]:
                        find_arrays(a, arrs)
            cands = []
            for a in arrs:
                els = [rect_simp(x) for x in a[1]]
                if all(isinstance(c, tuple) and c[0] in ("x0", "x1") and c[1] in ("y0", "y1") for c in els):
                    cands.append(els)
            ok = False
            for els in cands:
                seq = els[:-1] if ring and len(els) == 5 and els[0] == els[-1] else els
                if ring and not (len(els) == 5 and els[0] == els[-1]):
                    continue
                if len(seq) != 4 or len(set(seq)) != 4:
                    continue
                # consecutive corners differ in exactly one axis, orientation counter-clockwise
                area2 = 0
                val = {"x0": 0, "x1": 1, "y0": 0, "y1": 1}
                good = True
                for i in range(4):
                    a, b = seq[i], seq[(i + 1) % 4]
                    if (a[0] != b[0]) == (a[1] != b[1]):
                        good = False
                    area2 += val[a[0]] * val[b[1]] - val[b[0]] * val[a[1]]
                if good and area2 > 0:
                    ok = True
            if not ok:
                rep.bad("R18.5", key, "does not walk the four corners once, counter-clockwise%s: saw %s" % (", closing on the first" if ring else "", cands[:2]), where=fn.loc())
                return
        rep.ok("R18.5", key)

    try:
        check_rect_walk("Rect::to_polygon", F.one(r"geo_types::geometry::rect::Rect::<T>::to_polygon$"), True)
        check_rect_walk("From<Rect> for Polygon", F.impl_method("core::convert::From", r"^geo_types::geometry::polygon::Polygon<T>$", r"^geo_types::geometry::rect::Rect<T>$", "from"), True)
    except KeyError as e:
        rep.bad("R18.5", "anchor-missing-rect", str(e))
