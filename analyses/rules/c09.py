"""C09 — simplification keeps a vertex subsequence within the tolerance (structural clauses).

 R9.1 eps <= 0 is the identity in every public entry: no engine work (compute_rdp / priority-queue loop) happens on a
      path that has not tested `eps <= 0` false, and the coordinate- and index-returning siblings agree on that guard
 R9.2 siblings reach the same engine with the same const generics
 R9.3 ring minimum: every Douglas-Peucker / VW-preserve call made for a Polygon ring has INITIAL_MIN >= 4, rings are not
      routed through the line-string impl, and compute_rdp's shrink step compares against INITIAL_MIN
 R9.4 polygons are rebuilt through Polygon::new (closed rings, C18)
 R9.5 all tolerance comparisons of one engine agree at the boundary case area == eps (contradiction rule)
Not decided: the eps error bound, heap invalidation, split arithmetic.
"""
import re
from ..facts import Facts, short, op_place
from ..flow import AccessPaths
from ..symex import Symex, Unanalysable, show, show_pc

LEVEL = "other"
GT = "geo_types::geometry::"
ENGINE = re.compile(r"simplify::compute_rdp$|binary_heap::BinaryHeap::<T(, A)?>::(pop|push)$|simplify_vw::recompute_triangles$|simplify_vw::tree_intersect$")


def run(rep, tier):
    rep.explanation = ("Sibling agreement and guards over resolved callees and path tables: identity guard for eps <= 0 in front of every engine, "
                       "same engine / const generics for coordinate- and index-returning entries, ring minimum of 4 for every polygon ring "
                       "in Douglas-Peucker and the topology-preserving variant, results through Polygon::new, consistent tolerance comparisons. "
                       "The eps error bound and the heap logic are numeric / data-dependent and not decided.")
    rep.trusted = ["rustc callee resolution and const-generic arguments", "one unrolled loop iteration per loop"]
    rep.assumptions = []
    F = Facts("default")
    guards(rep, F)
    const_generics(rep, F)
    tolerance_consistency(rep, F)
    rdp_metric(rep, F)
    recompute(rep, F)
    # the metric of Douglas-Peucker: Distance<Coord, &Line> must be the distance to the SEGMENT (numeric table shared with C07)
    from . import c07
    c07.small_pair_tables(rep, F, rule="R9.9", only={"Coord-Line"})


ENTRIES = [
    ("simplify", "geo::algorithm::simplify::Simplify", "simplify"),
    ("simplify_idx", "geo::algorithm::simplify::SimplifyIdx", "simplify_idx"),
    ("simplify_vw", "geo::algorithm::simplify_vw::SimplifyVw", "simplify_vw"),
    ("simplify_vw_idx", "geo::algorithm::simplify_vw::SimplifyVwIdx", "simplify_vw_idx"),
    ("simplify_vw_preserve", "geo::algorithm::simplify_vw::SimplifyVwPreserve", "simplify_vw_preserve"),
]


def guards(rep, F):
    rep.rule("R9.1", "in every LineString entry, engine work happens only on paths that tested `eps <= 0` false; the eps <= 0 path does no engine work")
    for name, trait, meth in ENTRIES:
        try:
            fn = F.impl_method(trait, r"^%sline_string::LineString<T>$" % GT, None, meth, crates=("geo",))
        except KeyError as e:
            rep.bad("R9.1", name + ":anchor", str(e))
            continue
        ex = Symex(F, no_inline=[r"simplify::compute_rdp$", r"recompute_triangles$", r"tree_intersect$", r"LineString::<T>::close$"], loop_bound=1, max_paths=20000, budget_s=30,
                   inline_crates=("geo",))
        try:
            paths = ex.run(fn)
        except Unanalysable as e:
            rep.bad("R9.1", name + ":unanalysable", str(e), where=fn.loc())
            continue
        n_eng = n_id = 0
        bad = None
        for p in paths:
            if p.kind == "panic":
                continue
            calls = [e for e in p.trace if e[0] == "call"]
            eng = [c for c in calls if ENGINE.search(c[1])]
            g = None
            for t, v in p.pc:
                s = show(t)
                if re.search(r"^\(a2 <= (num_traits::identities::)?(Zero::)?zero\(\)\)$|^\(a2 <= zero\(\)\)$", s):
                    g = v
            if eng:
                n_eng += 1
                if g != 0:
                    bad = "engine work (%s) on a path that %s" % (short(eng[0][1]), "took the eps <= 0 branch" if g == 1 else "never compared eps with zero")
            elif g == 1:
                n_id += 1
            else:
                # a path that does no engine work although eps <= 0 was not found true: admissible only if it decided on the input's
                # size / emptiness, never on another comparison of eps
                other = [show(t) for t, v in p.pc if re.search(r"\ba2\b", show(t)) and not re.search(r"^\(a2 <= (num_traits::identities::)?(Zero::)?zero\(\)\)$", show(t))]
                if other:
                    bad = "returns without engine work on a path that compared eps with something other than zero: %s" % other[0][:80]
        if bad:
            rep.bad("R9.1", "guard:" + name, "%s: %s — eps <= 0 is not the identity for this entry although it is for its sibling" % (name, bad), where=fn.loc())
        elif n_eng == 0:
            rep.bad("R9.1", "no-engine:" + name, "no path of %s reaches the engine (analysis blind)" % name, where=fn.loc())
        elif n_id == 0:
            rep.bad("R9.1", "no-identity-path:" + name, "%s has no eps <= 0 identity path" % name, where=fn.loc())
        else:
            rep.ok("R9.1", "guard:%s[%d engine paths, %d identity paths]" % (name, n_eng, n_id))


def calls_with_consts(F, fn):
    out = []
    for g in [fn] + F.closures_of(fn):
        for c in g.calls():
            out.append((g, c))
    return out


def const_of(c):
    for a in reversed(c.gargs or []):
        m = re.match(r"^(\d+)(usize)?$", a.strip())
        if m:
            return int(m.group(1))
    return None


def const_generics(rep, F):
    rep.rule("R9.2", "coordinate- and index-returning siblings call the same engine with the same INITIAL_MIN")
    rep.rule("R9.3", "polygon rings: every rdp / vwp call has INITIAL_MIN >= 4 and rings never go through the line-string impl of the same trait; compute_rdp compares the shrunk length with INITIAL_MIN")
    rep.rule("R9.4", "simplified polygons are rebuilt with Polygon::new")
    # R9.2: LineString simplify vs simplify_idx
    try:
        a = F.impl_method("geo::algorithm::simplify::Simplify", r"^%sline_string::LineString<T>$" % GT, None, "simplify", crates=("geo",))
        b = F.impl_method("geo::algorithm::simplify::SimplifyIdx", r"^%sline_string::LineString<T>$" % GT, None, "simplify_idx", crates=("geo",))
        ca = [const_of(c) for g, c in calls_with_consts(F, a) if re.search(r"simplify::rdp$", c.path or "")]
        cb = [const_of(c) for g, c in calls_with_consts(F, b) if re.search(r"simplify::calculate_rdp_indices$", c.path or "")]
        if ca and cb and set(ca) == set(cb) == {2}:
            rep.ok("R9.2", "rdp-siblings:INITIAL_MIN=2")
        else:
            rep.bad("R9.2", "rdp-siblings", "simplify uses INITIAL_MIN %s, simplify_idx %s" % (ca, cb), where=a.loc())
        # both wrappers hand the same const on to compute_rdp
        for nm in ("rdp", "calculate_rdp_indices"):
            f = F.one(r"^geo::algorithm::simplify::%s$" % nm, crates=("geo",))
            cc = [c for g, c in calls_with_consts(F, f) if re.search(r"compute_rdp$", c.path or "")]
            if cc and all("INITIAL_MIN" in (c.gargs or [""])[-1] for c in cc):
                rep.ok("R9.2", "%s->compute_rdp::<INITIAL_MIN>" % nm)
            else:
                rep.bad("R9.2", "%s:const-forwarding" % nm, "%s does not forward its INITIAL_MIN to compute_rdp (%s)" % (nm, [c.gargs for c in cc]), where=f.loc())
    except KeyError as e:
        rep.bad("R9.2", "anchor", str(e))
    # R9.3 / R9.4
    for trait, meth, eng in (("geo::algorithm::simplify::Simplify", "simplify", r"simplify::rdp$"),
                             ("geo::algorithm::simplify_vw::SimplifyVwPreserve", "simplify_vw_preserve", r"simplify_vw::(vwp_wrapper|visvalingam_preserve)$")):
        for ty in ("polygon::Polygon", "multi_polygon::MultiPolygon"):
            try:
                fn = F.impl_method(trait, r"^%s%s<T>$" % (GT, ty), None, meth, crates=("geo",))
            except KeyError as e:
                rep.bad("R9.3", "%s:%s:anchor" % (meth, ty), str(e))
                continue
            cs = calls_with_consts(F, fn)
            key = "%s:%s" % (meth, ty.split("::")[-1])
            engs = [(g, c) for g, c in cs if re.search(eng, c.path or "")]
            ring_via_ls = [(g, c) for g, c in cs if c.trait == trait and re.search(r"line_string::LineString<T>|multi_line_string::MultiLineString<T>", c.self_ty or "")]
            if ring_via_ls:
                g, c = ring_via_ls[0]
                rep.bad("R9.3", "ring-as-linestring:" + key, "a polygon ring is simplified through the LineString impl of %s (minimum 2 coordinates), so it can shrink below four coordinates" % short(trait), where="%s:%s" % (g.rel_file, c.line))
            if ty.endswith("MultiPolygon"):
                # delegates to the Polygon impl
                deleg = [c for g, c in cs if c.trait == trait and "polygon::Polygon<T>" in (c.self_ty or "")]
                if deleg or engs:
                    rep.ok("R9.3", key + ":delegates")
                else:
                    rep.bad("R9.3", key + ":delegation", "MultiPolygon does not simplify its members through the Polygon impl", where=fn.loc())
            else:
                mins = [const_of(c) for g, c in engs]
                if engs and all(m is not None and m >= 4 for m in mins):
                    rep.ok("R9.3", key + ":INITIAL_MIN>=4", sample={"fn": short(fn.path), "consts": mins})
                elif not ring_via_ls:
                    rep.bad("R9.3", key + ":min", "ring simplification calls have INITIAL_MIN %s (need >= 4 for every ring)" % mins, where=fn.loc())
                if any(re.search(r"polygon::Polygon::<T>::new$", c.path or "") for g, c in cs):
                    rep.ok("R9.4", key + ":Polygon::new")
                else:
                    rep.bad("R9.4", key, "result not rebuilt through Polygon::new", where=fn.loc())
    # compute_rdp compares against INITIAL_MIN
    try:
        f = F.one(r"^geo::algorithm::simplify::compute_rdp$", crates=("geo",))
        found = False
        for bb, pl, rv, line in f.all_assigns():
            if rv[0] == "bin" and rv[1] in ("Lt", "Le", "Gt", "Ge"):
                for o in (rv[2], rv[3]):
                    if "const" in o and "INITIAL_MIN" in str(o["const"].get("text", "")):
                        found = True
        if found:
            rep.ok("R9.3", "compute_rdp:min-guard")
        else:
            rep.bad("R9.3", "compute_rdp:min-guard", "compute_rdp no longer compares the shrunk length with INITIAL_MIN", where=f.loc())
    except KeyError as e:
        rep.bad("R9.3", "compute_rdp:anchor", str(e))


def tolerance_consistency(rep, F):
    rep.rule("R9.7", "the Visvalingam removal loop stops exactly at `smallest area > eps` (every area/eps comparison of the engine is that predicate or its complement)")
    rep.rule("R9.5", "within one VW engine every comparison of a triangle area with eps agrees at area == eps (all sites equal or complementary as predicates)")
    for name in ("visvalingam_indices", "visvalingam_preserve"):
        try:
            fn = F.one(r"^geo::algorithm::simplify_vw::%s$" % name, crates=("geo",))
        except KeyError as e:
            rep.bad("R9.5", name + ":anchor", str(e))
            continue
        vecs = {}
        for g in [fn] + F.closures_of(fn):
            ap = AccessPaths(g)
            for c in g.calls():
                if c.trait != "core::cmp::PartialOrd" or c.method not in ("lt", "le", "gt", "ge") or len(c.args) != 2:
                    continue
                ops = []
                for a in c.args:
                    p = op_place(a)
                    ops.append(ap.show(ap.canon(p)) if p is not None else "const")
                is_eps = [("arg2" in o and g is fn) or re.search(r"arg1\.\d+\.\*?$|arg1\.\*?\.?\d", o) is not None and g is not fn for o in ops]
                is_area = ["area" in o for o in ops]
                # closures capture epsilon: accept any operand that is not the area as the tolerance side when the other is an area
                if is_area[0] == is_area[1]:
                    continue
                area_left = is_area[0]
                rel = {"lt": "<", "le": "<=", "gt": ">", "ge": ">="}[c.method]
                if not area_left:
                    rel = {"<": ">", "<=": ">=", ">": "<", ">=": "<="}[rel]
                # truth vector of `area REL eps` at area<eps, area==eps, area>eps
                tv = {"<": (1, 0, 0), "<=": (1, 1, 0), ">": (0, 0, 1), ">=": (0, 1, 1)}[rel]
                other = ops[1] if area_left else ops[0]
                vecs.setdefault(tv, []).append("%s:%s (area %s %s)" % (g.rel_file, c.line, rel, other[:20]))
        if not vecs:
            rep.bad("R9.5", name + ":no-sites", "no area/eps comparison found", where=fn.loc())
            continue
        tvs = list(vecs)
        base = tvs[0]
        incons = [tv for tv in tvs if tv != base and tv != tuple(1 - x for x in base)]
        stop = [tv for tv in tvs if tv not in ((0, 0, 1), (1, 1, 0))]
        if stop and not incons:
            rep.bad("R9.7", "stop-rule:" + name, "the removal loop compares with %s: it must run while the smallest area is <= eps and stop only at area > eps, otherwise a vertex whose "
                    "triangle area equals eps survives (the result must keep only vertices with area greater than eps)" % vecs[stop[0]][:2], where=fn.loc())
        elif not incons:
            rep.ok("R9.7", "stop-rule:" + name)
        if incons:
            rep.bad("R9.5", "inconsistent:" + name, "tolerance comparisons disagree when a triangle area equals eps: %s versus %s" % (vecs[base][:2], vecs[incons[0]][:2]), where=fn.loc())
        else:
            rep.ok("R9.5", "%s[%d sites]" % (name, sum(len(v) for v in vecs.values())), sample=[x for v in vecs.values() for x in v][:4])


def rdp_metric(rep, F):
    """R9.6: compute_rdp on slices of 4 and 5 vertices (exact unrolling of whatever loop / fold form is used).  The per-vertex value must be
    the Euclidean distance from the vertex to the SEGMENT Line(first, last); with those distances D_i and eps as the only unknowns, the path
    condition of every outcome is model-checked by enumeration over a small domain:
       culling the interior (or keeping everything under the minimum-size guard) only if every D_i <= eps,
       splitting at vertex k only if D_k is the maximum and D_k > eps."""
    import itertools
    from ..symex import bare
    from ..evalterm import Evaluator, NoModel
    rep.rule("R9.6", "compute_rdp (4 and 5 vertices, exact unrolling): interior vertices are dropped only when every point-to-SEGMENT distance to Line(first, last) is <= eps; a split is made "
                     "only at a farthest vertex and only when its distance exceeds eps")
    try:
        fn = F.one(r"^geo::algorithm::simplify::compute_rdp$", crates=("geo",))
    except KeyError as e:
        rep.bad("R9.6", "anchor", str(e))
        return
    rows = 0
    for N in (4, 5):
        elems = tuple(("index", ("deref", ("arg", 1)), ("const", k)) for k in range(N))
        sl = ("&", ("array", elems))
        ex = Symex(F, no_inline=[r"Distance.*::distance$", r"compute_rdp$"], inline_crates=("geo", "geo_types"), loop_bound=N + 3, max_paths=50000, budget_s=60, concrete_iters=True)
        try:
            ps = ex.run(fn, args=[sl, ("arg", 2), ("arg", 3)])
        except Unanalysable as e:
            rep.bad("R9.6", "unanalysable", str(e), where=fn.loc())
            return
        interior = list(range(1, N - 1))
        want_line = "Line::Line(into(a1[0].coord), into(a1[%d].coord))" % (N - 1)

        def dist_model(ev, args):
            pt, ln = bare(args[1]), bare(args[2])
            m = re.match(r"^a1\[(\d)\]\.coord$", pt)
            if not m or ln.replace("&", "") != want_line or not bare(args[0]).startswith("Euclidean"):
                raise NoModel("metric:%s|%s" % (pt, ln))
            return ev.env["D"][int(m.group(1))]
        for p in ps:
            if p.kind == "cut":
                rep.bad("R9.6", "unbounded", "compute_rdp does not finish within the exact unrolling of %d vertices" % N, where=fn.loc())
                return
            if p.kind != "ret":
                continue
            r = bare(p.ret)
            m = re.search(r"compute_rdp\(\[a1\[0\](?:, a1\[\d\])*, a1\[(\d)\]\], a2, a3\)", r)
            if r.startswith("vec!([a1[0], a1[%d]])" % (N - 1)):
                outcome = ("cull", None)
            elif r.startswith("to_owned("):
                outcome = ("keep", None)
            elif m:
                outcome = ("split", int(m.group(1)))
            else:
                outcome = ("unknown", r)
            rows += 1
            sat = 0
            for vals in itertools.product((0, 1, 2), repeat=len(interior) + 1):
                D = dict(zip(interior, vals[:-1]))
                eps = vals[-1]
                ev = Evaluator(F, {("arg", 3): eps, "D": D}, {})
                ev.calls = _Calls(dist_model)
                ok_ = True
                for t, v in p.pc:
                    try:
                        val = ev.ev(t)
                    except NoModel as e:
                        if str(e).startswith("metric:"):
                            rep.bad("R9.6", "metric", "the per-vertex value is not Euclidean.distance(vertex.coord, &Line(first, last)) (the distance to the SEGMENT): %s. A distance to the infinite "
                                    "chord line under-estimates for back-tracking vertices, which are then dropped although farther than eps from the retained segment" % str(e)[7:160], where=fn.loc())
                            return
                        continue      # an atom about something else (minimum-size guard): unconstrained
                    except (TypeError, KeyError):
                        continue
                    if isinstance(val, bool):
                        val = 1 if val else 0
                    if val != v:
                        ok_ = False
                        break
                if not ok_:
                    continue
                sat += 1
                mx = max(D.values())
                if outcome[0] == "unknown":
                    rep.bad("R9.6", "outcome", "unexpected result %s for %d vertices with distances %s, eps %s" % (outcome[1][:100], N, D, eps), where=fn.loc())
                    return
                if outcome[0] in ("cull", "keep") and mx > eps:
                    rep.bad("R9.6", "cull-guard", "%d vertices: the interior is dropped / kept as is on a path that admits distances %s with eps = %s (path: %s): a vertex farther than eps from "
                            "the retained segment is dropped, or no split is made although one is due" % (N, D, eps, show_pc(p.pc)[:160]), where=fn.loc())
                    return
                if outcome[0] == "split" and not (D.get(outcome[1]) == mx and mx > eps):
                    rep.bad("R9.6", "split", "%d vertices: the chain is split at vertex %s on a path that admits distances %s with eps = %s: the split vertex must be a farthest one and farther than eps" % (
                        N, outcome[1], D, eps), where=fn.loc())
                    return
    if rows < 12:
        rep.bad("R9.6", "floor", "only %d outcome rows" % rows, where=fn.loc())
    else:
        rep.ok("R9.6", "rdp-table[%d rows; 4 and 5 vertices]" % rows)


class _Calls(dict):
    """Evaluator call models: Euclidean distance to the chord segment (looked up by vertex), zero()"""
    def __init__(self, dist):
        dict.__init__(self)
        self.dist = dist

    def __contains__(self, path):
        return path.endswith("::distance") or path.endswith("Zero::zero") or path.endswith("::zero")

    def __getitem__(self, path):
        if path.endswith("::distance"):
            return self.dist
        return lambda ev, args: 0

def recompute(rep, F):
    """R9.8: after a removal both neighbours are re-scored: recompute_triangles walks the two candidate triangles (ll,left,right) and
    (left,right,rr); an out-of-range candidate is skipped, the other one still handled (the function returns only when the walk is exhausted);
    each in-range candidate is pushed with its own (left, current, right) and the area of exactly that triangle."""
    from .c01 import opaque, calls_of
    from ..symex import bare
    rep.rule("R9.8", "recompute_triangles: candidates [(ll,left,right),(left,right,rr)]; returns only after both were visited; every in-range candidate is pushed as VScore{left: a, current: c, right: b, area(orig[a],orig[c],orig[b])}")
    try:
        fn = F.one(r"simplify_vw::recompute_triangles$", crates=("geo",))
        ps = opaque(F, loop_bound=3).run(fn)
    except (KeyError, Unanalysable) as e:
        rep.bad("R9.8", "anchor", str(e))
        return
    rets = [p for p in ps if p.kind == "ret"]
    if not rets:
        rep.bad("R9.8", "shape", "no returning path", where=fn.loc())
        return
    src = None
    for p in rets:
        atoms = [(bare(t), v) for t, v in p.pc]
        if not atoms or not (atoms[-1][0].startswith("discr(next(") and atoms[-1][1] == 0):
            rep.bad("R9.8", "early-return", "recompute_triangles returns inside the walk over the two neighbour triangles (last decision: %s): when one candidate is out of range the "
                    "other neighbour is never re-scored and keeps a stale heap entry" % (atoms[-1:] or "none"), where=fn.loc())
            return
        m = re.match(r"^discr\(next\(into_iter\((\[.*\])\)\)\)$", atoms[0][0])
        if m:
            src = m.group(1)
        n_in = 0
        for i, (a, v) in enumerate(atoms):
            pass
        pushes = [bare(c[2][1]) for c in calls_of(p) if c[1].endswith("::push")]
        for pu in pushes:
            m = re.match(r"^VScore::VScore\(cast\(IntToInt, (.*)\.0, usize\), cast\(IntToInt, (.*)\.1, usize\), cast\(IntToInt, (.*)\.2, usize\), (.*), False\)$", pu)
            ok_fields = False
            if m and m.group(1) == m.group(2) == m.group(3):
                it = re.escape(m.group(1))
                area = m.group(4)
                tri = r"unsigned_area\(new\(a2\.0\[cast\(IntToInt, %s\.0, usize\)\], a2\.0\[cast\(IntToInt, %s\.1, usize\)\], a2\.0\[cast\(IntToInt, %s\.2, usize\)\]\)\)" % (it, it, it)
                ok_fields = re.match(r"^(%s|neg\(a9\))$" % tri, area) is not None
            if not ok_fields:
                # field order of VScore in the aggregate: (left, current, right, area, intersector) as declared
                rep.bad("R9.8", "push", "a re-scored triangle is pushed as %s: expected left/current/right = the candidate's own three indices and the area of that triangle (or -eps for the "
                        "intersector demotion)" % pu[:200], where=fn.loc())
                return
    if src != "[(a4, a5, a6), (a5, a6, a7)]":
        rep.bad("R9.8", "candidates", "the candidate triangles are %s, expected [(ll, left, right), (left, right, rr)]" % src, where=fn.loc())
        return
    # the declared field order, so that the aggregate positions above mean what they say
    adt = F.adts.get("geo::algorithm::simplify_vw::VScore")
    names = [f["name"] for f in adt["variants"][0]["fields"]] if adt else []
    if names != ["left", "current", "right", "area", "intersector"]:
        rep.bad("R9.8", "vscore-fields", "VScore fields are %s" % names)
        return
    rep.ok("R9.8", "recompute_triangles[%d paths]" % len(rets))
