"""C20 — results are a function of the inputs alone.

R20.1 enumerate every source of run/thread dependence in geo + geo_types lib code from resolved callees and
      types; R20.2 taint: hash-iteration order or a pointer-derived integer must not reach an ordered container /
      an ordering decision; R20.3 who-may-call: rayon only in the three delegating IntoParallelIterator impl
      families (indexed iterators), no clocks / RNG / env / thread identity, no mutable globals except the one
      LazyLock with a pure initialiser; feature wiring of `multithreading` read from the manifests.
"""
import os
import re
from ..facts import Facts, short, op_place
from ..flow import Taint, AccessPaths
from .. import extract

LEVEL = "other"

HASH_ITER = re.compile(
    r"^std::collections::hash::(map::HashMap|set::HashSet)::<[^>]*>::(iter|iter_mut|keys|values|values_mut|into_keys|into_values|drain|retain|extract_if|difference|union|intersection|symmetric_difference)$"
    r"|^<(&'a |&'a mut |&|&mut )?std::collections::hash::(map::HashMap|set::HashSet)<[^>]*> as core::iter::traits::collect::IntoIterator>::into_iter$")
ORDERED_HEAD = ("alloc::vec::Vec", "alloc::collections::vec_deque::VecDeque", "alloc::string::String", "alloc::collections::linked_list::LinkedList",
                "geo_types::geometry::multi_polygon::MultiPolygon", "geo_types::geometry::multi_line_string::MultiLineString",
                "geo_types::geometry::multi_point::MultiPoint", "geo_types::geometry::line_string::LineString",
                "geo_types::geometry::geometry_collection::GeometryCollection", "alloc::boxed::Box<[")
ORDERED_INSERT = re.compile(r"^alloc::vec::Vec::<T, A>::(push|insert|extend_from_slice|append|push_within_capacity)$"
                            r"|^alloc::collections::vec_deque::VecDeque::<T, A>::(push_back|push_front|insert)$"
                            r"|^alloc::string::String::(push|push_str)$")
ORDER_INSENSITIVE = re.compile(
    r"core::iter::traits::iterator::Iterator::(any|all|count|min|max|sum|product|last|is_sorted)$"
    r"|::len$|::is_empty$|::contains$|::contains_key$"
    r"|^std::collections::hash::(map::HashMap|set::HashSet)::<[^>]*>::(get|get_mut|insert|remove|entry|contains|contains_key|len|is_empty|get_or_insert_with)$"
    r"|^alloc::collections::btree::(map::BTreeMap|set::BTreeSet)::<[^>]*>::(insert|get|remove|contains|contains_key|len)$")
SORT = re.compile(r"^(alloc|core)::slice::<impl \[T\]>::(sort|sort_by|sort_by_key|sort_unstable|sort_unstable_by|sort_unstable_by_key|sort_by_cached_key)$")
CLOCKS = re.compile(r"^std::time::|^std::env::|^std::thread::current|^std::thread::Thread::|^std::process::id|^rand(_core)?::|^getrandom::|^std::hash::random::RandomState::new$|^std::thread::(spawn|scope)")
RAYON_OK_ITER = {"rayon::vec::IntoIter", "rayon::slice::Iter", "rayon::slice::IterMut"}
INTERIOR_MUT = re.compile(r"Atomic|Mutex|RwLock|Cell<|RefCell|OnceLock|LazyLock|OnceCell|Lazy<")

# exact-key exemptions (reported, not armed) with the reason; anything else is a violation.  Empty since round 5: the one former entry
# (IMSegment::partial_cmp's Rc-address tie-break) now has a failing input and is a known finding (known_findings.txt).
REPORTED_NOT_ARMED = {}


def ordered_type(ty):
    t = ty.lstrip("&").replace("mut ", "", 1).strip() if ty.startswith("&") else ty
    if t.startswith("core::result::Result<") or t.startswith("core::option::Option<"):
        t = t.split("<", 1)[1]
    return t.startswith(ORDERED_HEAD)


class HashOrderPolicy:
    def source(self, c):
        if c.path and HASH_ITER.search(c.path):
            g = c.gargs
            # hasher argument: K,V,S,(A) for maps, T,S,(A) for sets
            hasher = None
            for a in g:
                if "RandomState" in a or "BuildHasher" in a or "Hasher" in a:
                    hasher = a
            if hasher is None or "RandomState" in hasher:
                return "hash-iteration order of %s in %s" % (short(c.path), c.fn.path)
            return None
        return None

    def sanitizer(self, c):
        if c.path and ORDER_INSENSITIVE.search(c.path):
            return True
        if c.path and SORT.search(c.path):
            return True
        # collecting / extending into an unordered or key-ordered container
        if c.path and re.search(r"Iterator::collect$|FromIterator::from_iter$", c.path):
            dt = c.raw.get("dest_ty", "")
            if re.match(r"(std::collections::hash::|alloc::collections::btree::)", dt):
                return True
        if c.path and re.search(r"Extend.*::extend$", c.path):
            tys = c.raw.get("arg_tys", [])
            if tys and re.match(r"&mut (std::collections::hash::|alloc::collections::btree::)", tys[0]):
                return True
        return False

    def taints_mut_arg(self, c, i):
        return True

    def sink(self, c, targs, T):
        p = c.path or ""
        tys = c.raw.get("arg_tys", [])
        if ORDERED_INSERT.search(p):
            if any(i >= 1 for i in targs):
                return "a value derived from hash-iteration order is inserted into an ordered container by %s" % short(p)
            return None
        if re.search(r"Iterator::collect$|FromIterator::from_iter$|Iterator::unzip$", p):
            if ordered_type(c.raw.get("dest_ty", "")):
                return "an iterator in hash-iteration order is collected into the ordered container %s" % short(c.raw.get("dest_ty", ""))[:80]
            return None
        if re.search(r"Extend.*::extend$|Vec::<T, A>::extend", p):
            if tys and ordered_type(tys[0]) and any(i >= 1 for i in targs):
                return "an iterator in hash-iteration order extends an ordered container"
            return None
        if re.search(r"Iterator::(min_by|max_by|min_by_key|max_by_key|find|find_map|position|next|nth|reduce|fold|try_fold|for_each)$", p):
            if re.search(r"(min_by|max_by|min_by_key|max_by_key|find|find_map|position|nth|reduce)$", p):
                return "selection %s over a hash-ordered sequence depends on the iteration order when candidates tie" % short(p)
        return None


class PtrIntPolicy:
    def source(self, c):
        if c.path and re.search(r"::addr$|::expose_provenance$|::expose_addr$", c.path) and "ptr" in c.path:
            return "address taken by %s in %s" % (short(c.path), c.fn.path)
        return None

    def source_stmt(self, fn, rv):
        if rv[0] == "cast" and rv[1] in ("PointerExposeProvenance", "PointerExposeAddress"):
            return "pointer cast to integer in %s" % fn.path
        if rv[0] == "cast" and rv[1] == "Transmute" and rv[4].startswith(("*const", "*mut", "&")) and re.match(r"[ui](size|64)$", rv[3]):
            return "pointer transmuted to integer in %s" % fn.path
        return None

    def sanitizer(self, c):
        return False

    def taints_mut_arg(self, c, i):
        return False

    def stmt_blocks(self, fn, rv):
        # equality of addresses is identity, which is deterministic
        return rv[0] == "bin" and rv[1] in ("Eq", "Ne")

    def sink(self, c, targs, T):
        p = c.path or ""
        if re.search(r"core::cmp::(Ord::cmp|PartialOrd::(partial_cmp|lt|le|gt|ge))$|core::hash::Hash::hash$|core::cmp::impls::<impl core::cmp::(Ord|PartialOrd) for", p):
            return "an allocation address decides an ordering (%s)" % short(p)
        if ORDERED_INSERT.search(p) and any(i >= 1 for i in targs):
            return "an allocation address is stored in an ordered container"
        return None


def run(rep, tier):
    rep.explanation = ("Who-may-call and taint rules over resolved callees of every lib function of geo and geo_types: sources of run/thread "
                       "dependence are enumerated (hash iteration with RandomState, pointer->integer, clocks/RNG/env/thread id, rayon, mutable "
                       "globals); hash-order and address taint must not reach an ordered container or an ordering decision; rayon is confined "
                       "to the delegating, indexed IntoParallelIterator impls; feature wiring read from the manifests. Scheduling inside "
                       "i_overlay/rayon and rstar/spade internals are dependencies pinned by Cargo.lock and are assumed deterministic.")
    rep.trusted = ["rustc MIR + callee resolution", "i_overlay, rayon (indexed iterators preserve order), rstar bulk loading, spade: assumed deterministic",
                   "flow-insensitive taint: control dependence on hash order (without data flow) is not tracked"]
    rep.assumptions = ["std HashMap/HashSet with a fixed (non-RandomState) hasher iterate deterministically",
                       "BTreeMap/BTreeSet iterate in key order"]
    F = Facts("default")
    taint_rules(rep, F)
    who_may_call(rep, F)
    wiring(rep, F)
    shared_state(rep, F)
    if tier == "thorough":
        for cfg in ("allfeat", "nodefault"):
            F2 = Facts(cfg)
            taint_rules(rep, F2, tag="[%s]" % cfg, controls=False)
            who_may_call(rep, F2, tag="[%s]" % cfg, controls=False)


def taint_rules(rep, F, tag="", controls=True):
    rep.rule("R20.1", "sources of nondeterminism are enumerated from resolved callees (hash iteration under RandomState, pointer->integer)")
    rep.rule("R20.2", "no value derived from hash-iteration order or from an allocation address reaches an ordered container, a tie-sensitive selection or an ordering decision")
    for name, pol in (("hash-order", HashOrderPolicy()), ("ptr-order", PtrIntPolicy())):
        T = Taint(F, pol, extra_crates=("geo_verif_roots",) if controls else ()).run()
        srcs = {}
        for (fkey, line, lab), fn in T.sources.items():
            if fn.crate != "geo_verif_roots":
                srcs[(fn.path, lab)] = (fn, line)
        for (fp, lab), (fn, line) in sorted(srcs.items()):
            rep.ok("R20.1", "%s-source:%s%s" % (name, fp, tag), sample={"source": lab, "at": "%s:%d" % (fn.rel_file, line)})
        ctl = False
        bad_fns = {}
        for fn in T.fns:
            for c, ls in T.tainted_calls(fn):
                targs = [i for i, s in enumerate(ls) if s]
                msg = pol.sink(c, targs, T)
                if not msg:
                    continue
                lab = sorted(ls[targs[0]])[0]
                if fn.crate == "geo_verif_roots":
                    ctl = True
                    continue
                # sorted afterwards on every path to the exits?
                if name == "hash-order" and sorted_afterwards(fn, c):
                    rep.ok("R20.2", "%s:resorted:%s%s" % (name, fn.path, tag), sample="%s then sorted before every exit" % msg)
                    continue
                # one finding per *source* function: downstream sinks reached through summaries are flows of the same leak
                m = re.search(r" in (\S.*)$", lab or "")
                src_fn = m.group(1) if m else fn.path
                top = F.fns.get(src_fn, fn)
                while top.kind == "Closure" and top.parent in F.by_key:
                    top = F.by_key[top.parent]
                bad_fns.setdefault(top.path, []).append((fn, c, msg, lab))
        for fp, items in sorted(bad_fns.items()):
            key = "%s:%s%s" % (name, fp, tag)
            fn, c, msg, lab = items[0]
            sites = sorted({"%s:%s" % (f.rel_file, cc.line) for f, cc, _, _ in items})
            base_key = "%s:%s" % (name, fp)     # the exemption names the function, whatever feature configuration is analysed
            if base_key in REPORTED_NOT_ARMED:
                rep.info.setdefault("reported_not_armed", {})[key] = {"why": REPORTED_NOT_ARMED[base_key], "sites": sites}
                rep.ok("R20.2", "exempt:" + key)
                continue
            # the key names the function, whatever feature configuration is analysed (one defect, one key; the configuration is in the message)
            rep.bad("R20.2", base_key, "%s%s (source: %s); %d flow(s) at %s" % (msg, tag and " " + tag, lab, len(items), ", ".join(sites[:6])),
                    where="%s:%s" % (fn.rel_file, c.line), detail={"flows": [(f.path, cc.line, m) for f, cc, m, _ in items][:10]})
        # every function that has a source but no finding is an instance that passed
        clean = {fp for (fp, lab) in srcs} - set(bad_fns)
        for fp in sorted(clean):
            rep.ok("R20.2", "%s:clean:%s%s" % (name, fp, tag))
        if controls:
            rep.expect_control("R20.2/" + name)
            rep.control("R20.2/" + name, ctl)
    n_fns = len(F.lib_fns())
    rep.info["functions_analysed" + tag] = n_fns
    rep.floor("R20.1", "lib functions analysed" + tag, n_fns, 2000)


def sorted_afterwards(fn, c):
    """Every normal path from the sink to a return passes a sort of the same container."""
    ap = AccessPaths(fn)
    if not c.args:
        return False
    p = op_place(c.args[0])
    tgt = ap.canon(p) if p is not None else None
    if c.path and re.search(r"collect$|from_iter$", c.path):
        tgt = ("call", c.bb, ())
    sort_blocks = []
    for cc in fn.calls():
        if cc.path and SORT.search(cc.path) and cc.args:
            q = op_place(cc.args[0])
            if q is None:
                continue
            cq = ap.canon(q)
            if tgt is not None and cq[0] == tgt[0] and cq[1] == tgt[1]:
                sort_blocks.append(cc.bb)
    if not sort_blocks:
        return False
    return fn.find_path(c.bb, fn.return_blocks(), avoid=sort_blocks) is None


def who_may_call(rep, F, tag="", controls=True):
    rep.rule("R20.3", "rayon only inside the delegating IntoParallelIterator impls of the Multi* types (indexed iterators); no clock / RNG / env / thread-identity call; no mutable global state except the LazyLock with a pure initialiser")
    n_rayon = 0
    ctl_clock = ctl_rayon = False
    for fn in F.lib_fns(("geo", "geo_types", "geo_verif_roots")):
        for c in fn.calls():
            p = c.path or ""
            if CLOCKS.search(p) or (c.callee and CLOCKS.search(c.callee)):
                if fn.crate == "geo_verif_roots":
                    ctl_clock = True
                else:
                    rep.bad("R20.3", "clock-rng-env:%s%s" % (fn.path, tag), "calls %s: the result can depend on time, randomness, environment or thread identity" % short(p), where="%s:%s" % (fn.rel_file, c.line))
            if c.crate in ("rayon", "rayon_core") or p.startswith("rayon") or (c.callee or "").startswith(("rayon", "<I as rayon")) or "rayon::" in (c.callee or ""):
                if fn.crate == "geo_verif_roots":
                    ctl_rayon = True
                    continue
                n_rayon += 1
                io = fn.impl_of or {}
                ok = (fn.crate == "geo_types" and io.get("trait") == "rayon::iter::IntoParallelIterator" and fn.name == "into_par_iter"
                      and re.search(r"geo_types::geometry::multi_(polygon::MultiPolygon|line_string::MultiLineString|point::MultiPoint)<T>$", io.get("self_ty", "")))
                if ok:
                    # pure delegation: exactly one call, on self.0, whose result is returned; iterator type indexed
                    calls = fn.calls()
                    ap = AccessPaths(fn)
                    a0 = ap.canon(op_place(c.args[0])) if c.args and op_place(c.args[0]) is not None else None
                    ret_ty = fn.locals[0].split("<")[0]
                    good = (len(calls) == 1 and a0 is not None and a0[0] == "arg" and a0[1] == 1 and "0" in a0[2]
                            and re.search(r"^rayon::iter::IntoParallel(Ref|RefMut)?Iterator::(into_par_iter|par_iter|par_iter_mut)$", c.callee or "")
                            and c.dest["l"] == 0 and ret_ty in RAYON_OK_ITER)
                    if good:
                        rep.ok("R20.3", "rayon-delegate:%s%s" % (io.get("self_ty"), tag), sample={"impl": short(io.get("trait_ref", "")), "iter": ret_ty})
                    else:
                        rep.bad("R20.3", "rayon-not-delegating:%s%s" % (fn.path, tag),
                                "parallel iterator impl is not a plain delegation to the indexed iterator of the inner Vec (returns %s via %s): order of collected results may depend on scheduling" % (short(fn.locals[0])[:60], short(c.callee or p)),
                                where="%s:%s" % (fn.rel_file, c.line))
                else:
                    rep.bad("R20.3", "rayon-call:%s%s" % (fn.path, tag), "calls %s outside the delegating IntoParallelIterator impls" % short(p), where="%s:%s" % (fn.rel_file, c.line))
    if "multithreading" in F.features("geo_types"):
        rep.floor("R20.3", "rayon delegation sites" + tag, n_rayon, 9)
    # globals
    n_static = 0
    for fn in F.lib_fns():
        if fn.kind != "Static":
            continue
        n_static += 1
        ty = fn.locals[0]
        key = "static:%s%s" % (fn.path, tag)
        if INTERIOR_MUT.search(ty) or "geodesic::GeodesicMeasure" in ty:
            # the one allowed lazily initialised static: its initialiser may only call the pure constructor chain
            if fn.path == "geo::algorithm::line_measures::metric_spaces::geodesic::Geodesic":
                callees = [c.path for c in fn.calls()]
                ok = all(re.search(r"geodesic::GeodesicMeasure(::<[^>]*>)?::wgs84$", x or "") for x in callees)
                w = F.find(r"geodesic::GeodesicMeasure(::<[^>]*>)?::wgs84$")
                inner = [c.path for f in w for c in f.calls()]
                ok = ok and all(re.search(r"LazyLock::<T, F>::new$", x or "") for x in inner) and len(w) == 1
                # the function handed to LazyLock::new must be the external pure constructor
                fnptrs = []
                for f in w:
                    for bb, pl, rv, line in f.all_assigns():
                        for o in (rv[2] if rv[0] == "agg" else [rv[1]] if rv[0] in ("use",) else [rv[2]] if rv[0] == "cast" else []):
                            if isinstance(o, dict) and "const" in o and "fn" in o["const"]:
                                fnptrs.append(o["const"]["fn"]["path"])
                    for c in f.calls():
                        for a in c.args:
                            if "const" in a and "fn" in a["const"]:
                                fnptrs.append(a["const"]["fn"]["path"])
                ok = ok and fnptrs and all(x == "geographiclib_rs::geodesic::Geodesic::wgs84" for x in fnptrs)
                if ok:
                    rep.ok("R20.3", key, sample="LazyLock initialised by geographiclib_rs::Geodesic::wgs84 (pure constructor)")
                else:
                    rep.bad("R20.3", key, "lazily initialised global no longer initialised by the pure constructor only (calls %s, fn items %s)" % (callees, fnptrs), where=fn.loc())
            else:
                rep.bad("R20.3", key, "global with interior mutability of type %s" % short(ty), where=fn.loc())
        else:
            rep.ok("R20.3", key)
    for fn in F.lib_fns():
        for bb, pl, rv, line in fn.all_assigns():
            if rv[0] == "tls":
                rep.bad("R20.3", "thread-local:%s%s" % (fn.path, tag), "uses thread-local %s" % rv[1], where="%s:%d" % (fn.rel_file, line))
    rep.floor("R20.3", "statics" + tag, n_static, 2)
    if controls:
        rep.expect_control("R20.3/clock")
        rep.control("R20.3/clock", ctl_clock)


def wiring(rep, F):
    rep.rule("R20.4", "feature wiring: geo's `multithreading` only forwards to i_overlay/allow_multithreading and geo-types/multithreading; geo-types' only to rayon")
    def feature_line(path, name):
        txt = open(os.path.join(extract.REPO, path)).read()
        m = re.search(r"^%s\s*=\s*\[(.*?)\]" % re.escape(name), txt, re.M | re.S)
        if not m:
            return None
        return sorted(x.strip().strip('"') for x in m.group(1).split(",") if x.strip())
    g = feature_line("geo/Cargo.toml", "multithreading")
    t = feature_line("geo-types/Cargo.toml", "multithreading")
    if g == ["geo-types/multithreading", "i_overlay/allow_multithreading"]:
        rep.ok("R20.4", "geo/multithreading", sample=g)
    else:
        rep.bad("R20.4", "geo/multithreading", "feature now enables %s" % g, where="geo/Cargo.toml")
    if t == ["rayon"]:
        rep.ok("R20.4", "geo-types/multithreading", sample=t)
    else:
        rep.bad("R20.4", "geo-types/multithreading", "feature now enables %s" % t, where="geo-types/Cargo.toml")
    # no code in geo/src is conditional on the feature: the who-may-call rule above then covers both configurations
    n = 0
    for d, _, fs in os.walk(os.path.join(extract.REPO, "geo", "src")):
        for f in fs:
            if f.endswith(".rs"):
                txt = open(os.path.join(d, f)).read()
                for m in re.finditer(r'cfg\w*\([^)]*feature\s*=\s*"multithreading"', txt):
                    n += 1
                    rep.bad("R20.4", "cfg-multithreading:%s" % os.path.relpath(os.path.join(d, f), extract.REPO), "code conditional on the multithreading feature inside geo/src (not covered by the delegation rule)")
    if n == 0:
        rep.ok("R20.4", "no-cfg-multithreading-in-geo-src")


class _Alias:
    """forwards to the report under another rule id (C17's freshness rules are also a determinism rule: R20.5)"""
    def __init__(self, rep, rule):
        self.rep, self.r = rep, rule
        self.info = rep.info

    def rule(self, rid, text):
        pass

    def ok(self, rid, key, sample=None):
        self.rep.ok(self.r, key, sample=sample)

    def bad(self, rid, key, msg, where=None, detail=None):
        self.rep.bad(self.r, key, msg + " — a later call with equal input then sees state left by an earlier call (results depend on the call history)", where=where, detail=detail)

    def floor(self, rid, *a):
        self.rep.floor(self.r, *a)


def shared_state(rep, F):
    """R20.5: the only values geo caches across calls behind `&self` with interior mutability are the edges of a PreparedGeometry's graph
    (Rc<RefCell<Edge>>); every relate() must work on fresh copies (C17 R17.1/R17.2), otherwise repeated calls with equal input differ."""
    from . import c17
    rep.rule("R20.5", "no call mutates state that a later call reads: PreparedGeometry hands out freshly allocated edges on every path; and no other pub type of geo / geo_types "
                      "stores Rc<RefCell>, Cell, RefCell, Mutex, RwLock or atomics")
    c17.freshness(_Alias(rep, "R20.5"), F)
    # inventory of interior mutability in struct fields: only the known graph / sweep internals
    allowed = re.compile(r"^geo::algorithm::(relate::|sweep::|monotone::|bool_ops::|triangulate_delaunay|stitch)")
    n = 0
    for name, adt in F.adts.items():
        if not (name.startswith("geo::") or name.startswith("geo_types::")):
            continue
        for v in adt.get("variants", []):
            for f in v.get("fields", []):
                ty = str(f.get("ty", ""))
                if re.search(r"\b(core::cell::(Cell|RefCell|UnsafeCell|OnceCell)|std::sync::(Mutex|RwLock|OnceLock)|core::sync::atomic::|std::sync::mutex::Mutex|std::sync::poison::)", ty):
                    n += 1
                    if allowed.search(name):
                        rep.ok("R20.5", "interior-mutability:%s.%s" % (short(name), f.get("name")))
                    else:
                        rep.bad("R20.5", "interior-mutability:%s.%s" % (short(name), f.get("name")), "the type %s stores interior-mutable state (%s) outside the graph / sweep internals" % (name, ty[:80]))
    rep.info["interior_mutable_fields"] = n
