"""E0 front end: run the geofacts driver over /repo's *current working tree* and cache the facts.

The cache key is a content hash of every source / manifest file under /repo that can influence the
lib targets plus the driver binary and the generated roots crate, so any edit forces a new
extraction; cargo's own freshness cache is defeated by removing the member fingerprints first.
"""
import fcntl
import hashlib
import json
import os
import pickle
import shutil
import subprocess
import sys
import time

VERIF = os.path.dirname(os.path.dirname(os.path.abspath(__file__)))
REPO = os.environ.get("GEO_REPO", "/repo")
CACHE = os.environ.get("VERIF_CACHE", os.path.join(VERIF, ".cache"))
DRIVER = os.path.join(VERIF, "driver", "target", "release", "geofacts")

CONFIGS = {
    # name: (geo dependency line, extra geo-types features)
    "default": dict(geo_features=None, geo_default=True, types_features=[]),
    "allfeat": dict(geo_features=["use-serde"], geo_default=True,
                    types_features=["serde", "arbitrary", "use-rstar_0_8", "use-rstar_0_9",
                                    "use-rstar_0_10", "use-rstar_0_11"]),
    "nodefault": dict(geo_features=[], geo_default=False, types_features=[]),
}


class InfraError(Exception):
    pass


def tree_hash(extra=b""):
    h = hashlib.sha256()
    roots = ["geo/src", "geo-types/src", "geo/Cargo.toml", "geo-types/Cargo.toml", "Cargo.toml",
             "Cargo.lock", "geo/build.rs", "geo-types/build.rs"]
    files = []
    for r in roots:
        p = os.path.join(REPO, r)
        if os.path.isdir(p):
            for d, _, fs in os.walk(p):
                for f in fs:
                    files.append(os.path.join(d, f))
        elif os.path.exists(p):
            files.append(p)
    for f in sorted(files):
        h.update(f.encode())
        with open(f, "rb") as fh:
            h.update(hashlib.sha256(fh.read()).digest())
    if os.path.exists(DRIVER):
        with open(DRIVER, "rb") as fh:
            h.update(hashlib.sha256(fh.read()).digest())
    h.update(extra)
    return h.hexdigest()[:20]


def sysroot():
    return subprocess.check_output(["rustc", "+nightly", "--print", "sysroot"], text=True).strip()


def _roots_source():
    from . import roots_gen
    return roots_gen.generate()


def ensure(config="default", verbose=True):
    """Return the directory holding geo.facts.json, geo_types.facts.json, geo_verif_roots.{facts,mono}.json."""
    if not os.path.exists(DRIVER):
        raise InfraError("driver not built: run MANIFEST.setup_cmd (%s missing)" % DRIVER)
    roots_src = _roots_source()
    th = tree_hash(roots_src.encode() + config.encode())
    outdir = os.path.join(CACHE, "facts", th, config)
    done = os.path.join(outdir, "DONE")
    if os.path.exists(done):
        return outdir
    os.makedirs(os.path.join(CACHE, "locks"), exist_ok=True)
    with open(os.path.join(CACHE, "locks", "extract-%s.lock" % config), "w") as lk:
        fcntl.flock(lk, fcntl.LOCK_EX)
        if os.path.exists(done):
            return outdir
        t0 = time.time()
        os.makedirs(outdir, exist_ok=True)
        cfg = CONFIGS[config]
        crate_dir = os.path.join(CACHE, "roots-%s" % config)
        os.makedirs(os.path.join(crate_dir, "src"), exist_ok=True)
        feats = cfg["geo_features"]
        geo_dep = 'geo = { path = "%s/geo"' % REPO
        if not cfg["geo_default"]:
            geo_dep += ", default-features = false"
        if feats:
            geo_dep += ", features = [%s]" % ", ".join('"%s"' % f for f in feats)
        geo_dep += " }"
        tdep = 'geo-types = { path = "%s/geo-types"' % REPO
        if cfg["types_features"]:
            tdep += ", features = [%s]" % ", ".join('"%s"' % f for f in cfg["types_features"])
        tdep += " }"
        with open(os.path.join(crate_dir, "Cargo.toml"), "w") as f:
            f.write('[package]\nname = "geo_verif_roots"\nversion = "0.0.0"\nedition = "2021"\n\n[workspace]\n\n'
                    '[lib]\npath = "src/lib.rs"\n\n[dependencies]\n%s\n%s\n\n'
                    '[patch.crates-io]\ngeo = { path = "%s/geo" }\ngeo-types = { path = "%s/geo-types" }\n'
                    % (geo_dep, tdep, REPO, REPO))
        with open(os.path.join(crate_dir, "src", "lib.rs"), "w") as f:
            f.write(roots_src)
        shutil.copyfile(os.path.join(REPO, "Cargo.lock"), os.path.join(crate_dir, "Cargo.lock"))
        target = os.path.join(CACHE, "target-%s" % config)
        # defeat cargo's freshness cache for the crates we dump
        fp = os.path.join(target, "debug", ".fingerprint")
        if os.path.isdir(fp):
            for d in os.listdir(fp):
                if d.startswith("geo-") or d.startswith("geo_verif_roots-") or d.startswith("geo-types-"):
                    base = d.rsplit("-", 1)[0]
                    if base in ("geo", "geo-types", "geo_verif_roots"):
                        shutil.rmtree(os.path.join(fp, d), ignore_errors=True)
        env = dict(os.environ)
        env.update({
            "LD_LIBRARY_PATH": sysroot() + "/lib",
            "RUSTFLAGS": "-Zmir-opt-level=0 -Zalways-encode-mir -Cdebug-assertions=off -Coverflow-checks=off -Awarnings",
            "RUSTC_WRAPPER": DRIVER,
            "CARGO_TARGET_DIR": target,
            "CARGO_NET_OFFLINE": "true",
            "GEOFACTS_OUT": outdir,
            "GEOFACTS_CRATES": "geo,geo_types,geo_verif_roots",
            "GEOFACTS_ROOTS": "geo_verif_roots",
            "GEOFACTS_WALK": "geo,geo_types",
        })
        env.pop("RUSTC_WORKSPACE_WRAPPER", None)
        for f in os.listdir(outdir):
            os.unlink(os.path.join(outdir, f))
        cmd = ["cargo", "+nightly", "check", "--offline", "-j", "16", "--lib"]
        p = subprocess.run(cmd, cwd=crate_dir, env=env, stdout=subprocess.PIPE, stderr=subprocess.STDOUT, text=True)
        log = os.path.join(outdir, "cargo.log")
        with open(log, "w") as f:
            f.write(p.stdout)
        if p.returncode != 0:
            tail = "\n".join(p.stdout.splitlines()[-40:])
            raise InfraError("extraction failed (config %s): /repo does not compile under the driver\n%s" % (config, tail))
        need = ["geo.facts.json", "geo_types.facts.json", "geo_verif_roots.facts.json", "geo_verif_roots.mono.json"]
        for n in need:
            if not os.path.exists(os.path.join(outdir, n)):
                raise InfraError("extraction produced no %s (see %s)" % (n, log))
        meta = {"tree_hash": th, "config": config, "wall_s": round(time.time() - t0, 1)}
        with open(os.path.join(outdir, "meta.json"), "w") as f:
            json.dump(meta, f)
        with open(done, "w") as f:
            f.write(th)
        if verbose:
            print("[extract] config=%s hash=%s %.1fs" % (config, th, time.time() - t0), file=sys.stderr)
        _gc()
    return outdir


def _gc(keep=6):
    base = os.path.join(CACHE, "facts")
    try:
        ds = sorted((os.path.getmtime(os.path.join(base, d)), d) for d in os.listdir(base))
    except FileNotFoundError:
        return
    for _, d in ds[:-keep]:
        shutil.rmtree(os.path.join(base, d), ignore_errors=True)


def load_json(outdir, name):
    """Load a fact file, through a pickle cache (json parsing of ~60 MB dominates otherwise)."""
    p = os.path.join(outdir, name)
    pk = p + ".pkl"
    if os.path.exists(pk) and os.path.getmtime(pk) >= os.path.getmtime(p):
        try:
            with open(pk, "rb") as f:
                return pickle.load(f)
        except Exception:
            pass
    with open(p) as f:
        data = json.load(f)
    try:
        tmp = pk + ".%d" % os.getpid()
        with open(tmp, "wb") as f:
            pickle.dump(data, f, protocol=pickle.HIGHEST_PROTOCOL)
        os.replace(tmp, pk)
    except Exception:
        pass
    return data
