"""Def-chain expressions over MIR (intra-procedural, no path enumeration): the expression a local was computed from,
obtained by following single definitions backwards.  Used where a function is too large for path enumeration but the
rule only needs the provenance of a few operands (which container slot a value was taken from, through which index)."""
from .facts import op_place


class Origin:
    def __init__(self, fn, max_depth=12, stop=()):
        self.fn = fn
        self.stop = set(stop)
        self.max_depth = max_depth
        self.defs = {}
        for bb, pl, rv, line in fn.all_assigns():
            if not pl["p"]:
                self.defs.setdefault(pl["l"], []).append(("assign", rv, bb))
        for c in fn.calls():
            d = c.dest
            if d is not None and not d["p"]:
                self.defs.setdefault(d["l"], []).append(("call", c, c.bb))
        self.names = {}
        for n, p in fn.d.get("names", []):
            if not p["p"]:
                self.names.setdefault(p["l"], n)

    def local(self, l, depth, at=None):
        if l <= self.fn.arg_count and l != 0:
            return "arg%d" % l
        ds = self.defs.get(l, [])
        if self.names.get(l) in self.stop:
            return self.names[l]
        if l in self.names and len(ds) != 1:
            return self.names[l]
        if len(ds) != 1 or depth > self.max_depth:
            return self.names.get(l, "_%d" % l)
        kind, x, bb = ds[0]
        if kind == "call":
            name = (x.path or "?").rsplit("::", 1)[-1]
            return "%s(%s)" % (name, ", ".join(self.operand(a, depth + 1) for a in x.args))
        return self.rvalue(x, depth + 1)

    def place(self, p, depth=0):
        s = self.local(p["l"], depth)
        for e in p["p"]:
            k = e[0]
            if k == "deref":
                s = s[1:] if s.startswith("&") else "*" + s
            elif k == "field":
                s = "%s.%s" % (s, e[2] if e[2] is not None else e[1])
            elif k == "downcast":
                s = "(%s as %s)" % (s, e[2])
            elif k == "index":
                s = "%s[%s]" % (s, self.local(e[1], depth + 1))
            elif k == "cindex":
                s = "%s[%s%d]" % (s, "-" if e[3] else "", e[1])
            else:
                s = "%s.<%s>" % (s, k)
        return s

    def operand(self, op, depth=0):
        p = op_place(op)
        if p is not None:
            return self.place(p, depth)
        c = op.get("const") or {}
        return str(c.get("val", c.get("ty", "const")))

    def rvalue(self, rv, depth):
        k = rv[0]
        if k == "use":
            return self.operand(rv[1], depth)
        if k == "ref":
            return "&" + self.place(rv[2] if len(rv) > 2 and isinstance(rv[2], dict) else rv[1], depth)
        if k == "cast":
            return self.operand(rv[2] if len(rv) > 2 and isinstance(rv[2], dict) else rv[1], depth)
        if k == "agg":
            return "agg(%s)" % ", ".join(self.operand(o, depth) for o in rv[2])
        if k == "bin":
            return "(%s %s %s)" % (self.operand(rv[2], depth), rv[1], self.operand(rv[3], depth))
        if k == "un":
            return "%s(%s)" % (rv[1], self.operand(rv[2], depth))
        if k == "discr":
            return "discr(%s)" % self.place(rv[1], depth)
        return k
