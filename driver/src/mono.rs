// Monomorphic instance walk from the `root_*` functions of a roots crate: the resolved dispatch
// graph, computed the way the monomorphisation collector would (no code is run).
use crate::facts::{args_j, key, path};
use crate::json::{s, J};
use rustc_hir::def::DefKind;
use rustc_middle::mir::{Operand, TerminatorKind};
use rustc_middle::ty::{self, EarlyBinder, Instance, Ty, TyCtxt, TypeVisitableExt, TypingEnv};
use std::collections::{HashMap, VecDeque};

fn walk_crates() -> Vec<String> {
    std::env::var("GEOFACTS_WALK")
        .unwrap_or_else(|_| "geo,geo_types".to_string())
        .split(',')
        .map(|x| x.trim().to_string())
        .collect()
}

fn collect_callables<'tcx>(t: Ty<'tcx>, out: &mut Vec<(rustc_hir::def_id::DefId, ty::GenericArgsRef<'tcx>)>, depth: usize) {
    if depth > 6 {
        return;
    }
    match t.kind() {
        ty::Closure(def, args) => {
            out.push((*def, args));
            // upvars / parent args may themselves hold callables
            for a in args.iter() {
                if let Some(t2) = a.as_type() {
                    collect_callables(t2, out, depth + 1);
                }
            }
        }
        ty::FnDef(def, args) => out.push((*def, args)),
        ty::Adt(_, args) => {
            for a in args.iter() {
                if let Some(t2) = a.as_type() {
                    collect_callables(t2, out, depth + 1);
                }
            }
        }
        ty::Ref(_, t2, _) => collect_callables(*t2, out, depth + 1),
        ty::Tuple(ts) => {
            for t2 in ts.iter() {
                collect_callables(t2, out, depth + 1);
            }
        }
        _ => {}
    }
}

pub fn dump_mono<'tcx>(tcx: TyCtxt<'tcx>) -> J {
    let env = TypingEnv::fully_monomorphized();
    let walk = walk_crates();
    let local_name = tcx.crate_name(rustc_hir::def_id::LOCAL_CRATE).to_string();
    let mut ids: HashMap<Instance<'tcx>, usize> = HashMap::new();
    let mut insts: Vec<Instance<'tcx>> = Vec::new();
    let mut queue: VecDeque<usize> = VecDeque::new();
    let mut roots = Vec::new();
    let mut intern = |i: Instance<'tcx>, insts: &mut Vec<Instance<'tcx>>, queue: &mut VecDeque<usize>| -> usize {
        if let Some(&n) = ids.get(&i) {
            return n;
        }
        let n = insts.len();
        ids.insert(i, n);
        insts.push(i);
        queue.push_back(n);
        n
    };
    for &ldid in tcx.mir_keys(()) {
        let did = ldid.to_def_id();
        if !matches!(tcx.def_kind(did), DefKind::Fn) {
            continue;
        }
        let name = tcx.item_name(did).to_string();
        if !name.starts_with("root_") {
            continue;
        }
        if tcx.generics_of(did).count() > 0 {
            continue;
        }
        let inst = Instance::mono(tcx, did);
        let n = intern(inst, &mut insts, &mut queue);
        roots.push(J::A(vec![s(name), J::I(n as i128)]));
    }
    let mut edges: Vec<J> = Vec::new();
    let mut unresolved: Vec<J> = Vec::new();
    while let Some(n) = queue.pop_front() {
        let inst = insts[n];
        let def_id = inst.def_id();
        let cname = tcx.crate_name(def_id.krate).to_string();
        let walkable = cname == local_name || walk.iter().any(|w| *w == cname);
        if !walkable {
            continue;
        }
        match inst.def {
            ty::InstanceKind::Item(_) | ty::InstanceKind::ClosureOnceShim { .. } => {}
            _ => continue,
        }
        if !tcx.is_mir_available(def_id) {
            continue;
        }
        let body = tcx.instance_mir(inst.def);
        for (bbi, bb) in body.basic_blocks.iter_enumerated() {
            if bb.is_cleanup {
                continue;
            }
            let Some(term) = &bb.terminator else { continue };
            if let TerminatorKind::Call { func, .. } = &term.kind {
                let fty = match func {
                    Operand::Constant(c) => c.const_.ty(),
                    other => other.ty(body, tcx),
                };
                let fty = inst.instantiate_mir_and_normalize_erasing_regions(tcx, env, EarlyBinder::bind(fty));
                if let ty::FnDef(cdef, cargs) = fty.kind() {
                    if cargs.has_non_region_param() {
                        unresolved.push(J::A(vec![J::I(n as i128), J::I(bbi.as_u32() as i128), s(path(tcx, *cdef))]));
                        continue;
                    }
                    match Instance::try_resolve(tcx, env, *cdef, cargs) {
                        Ok(Some(callee)) => {
                            let m = intern(callee, &mut insts, &mut queue);
                            edges.push(J::A(vec![J::I(n as i128), J::I(bbi.as_u32() as i128), J::I(m as i128), s("call")]));
                            // callables passed as generic arguments (closures given to iterator adaptors ...)
                            let mut cs = Vec::new();
                            for a in callee.args.iter() {
                                if let Some(t) = a.as_type() {
                                    collect_callables(t, &mut cs, 0);
                                }
                            }
                            for (d, a) in cs {
                                if a.has_non_region_param() {
                                    continue;
                                }
                                let ci = match tcx.def_kind(d) {
                                    DefKind::Closure => Some(Instance::new_raw(d, a)),
                                    _ => Instance::try_resolve(tcx, env, d, a).ok().flatten(),
                                };
                                if let Some(ci) = ci {
                                    let k = intern(ci, &mut insts, &mut queue);
                                    edges.push(J::A(vec![J::I(n as i128), J::I(bbi.as_u32() as i128), J::I(k as i128), s("passes")]));
                                }
                            }
                        }
                        _ => {
                            unresolved.push(J::A(vec![J::I(n as i128), J::I(bbi.as_u32() as i128), s(path(tcx, *cdef))]));
                        }
                    }
                }
            }
        }
    }
    let mut ij = Vec::new();
    for (n, inst) in insts.iter().enumerate() {
        let d = inst.def_id();
        let kind = format!("{:?}", inst.def);
        let kind = kind.split('(').next().unwrap_or("").to_string();
        ij.push(J::O(vec![
            ("id", J::I(n as i128)),
            ("path", s(path(tcx, d))),
            ("key", s(key(tcx, d))),
            ("crate", s(tcx.crate_name(d.krate).to_string())),
            ("args", args_j(inst.args)),
            ("kind", s(kind)),
        ]));
    }
    J::O(vec![("roots", J::A(roots)), ("instances", J::A(ij)), ("edges", J::A(edges)), ("unresolved", J::A(unresolved))])
}
