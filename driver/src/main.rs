// geofacts: rustc_private driver that dumps type-checked MIR facts of selected crates as JSON.
//
// Used as RUSTC_WRAPPER / RUSTC_WORKSPACE_WRAPPER:  geofacts <real-rustc> <rustc args...>
// Environment:
//   GEOFACTS_OUT     directory for <crate>.facts.json (required for dumping)
//   GEOFACTS_CRATES  comma separated crate names to dump (default "geo,geo_types")
//   GEOFACTS_ROOTS   crate name whose `root_*` functions seed the monomorphic instance walk
#![feature(rustc_private)]
#![allow(clippy::all)]

extern crate rustc_abi;
extern crate rustc_driver;
extern crate rustc_hir;
extern crate rustc_interface;
extern crate rustc_middle;
extern crate rustc_span;

mod json;
mod facts;
mod mono;

use rustc_driver::{Callbacks, Compilation};
use rustc_interface::interface::Compiler;
use rustc_middle::ty::TyCtxt;

struct Cb {
    dump: Vec<String>,
    roots: Option<String>,
    out: Option<String>,
}

impl Callbacks for Cb {
    fn after_analysis<'tcx>(&mut self, _c: &Compiler, tcx: TyCtxt<'tcx>) -> Compilation {
        let name = tcx.crate_name(rustc_hir::def_id::LOCAL_CRATE).to_string();
        let Some(out) = self.out.clone() else { return Compilation::Continue };
        // print every path as its full definition path with the crate name, in every crate alike
        let _g1 = rustc_middle::ty::print::NoTrimmedGuard::new();
        let _g2 = rustc_middle::ty::print::NoVisibleGuard::new();
        let _g3 = rustc_middle::ty::print::CrateNamePrefixGuard::new();
        if self.dump.iter().any(|d| *d == name) {
            let j = facts::dump_crate(tcx);
            let mut text = String::new();
            j.write(&mut text);
            let p = format!("{}/{}.facts.json", out, name);
            std::fs::write(&p, text).expect("write facts");
        }
        if self.roots.as_deref() == Some(name.as_str()) {
            let j = mono::dump_mono(tcx);
            let mut text = String::new();
            j.write(&mut text);
            let p = format!("{}/{}.mono.json", out, name);
            std::fs::write(&p, text).expect("write mono");
        }
        Compilation::Continue
    }
}

fn main() {
    let mut args: Vec<String> = std::env::args().collect();
    // wrapper mode: argv[1] is the path of the real rustc
    if args.len() > 1 && (args[1].ends_with("rustc") || args[1].contains("/rustc")) {
        args.remove(1);
    }
    let is_test = args.iter().any(|a| a == "--test");
    let dump: Vec<String> = std::env::var("GEOFACTS_CRATES")
        .unwrap_or_else(|_| "geo,geo_types".to_string())
        .split(',')
        .map(|s| s.trim().to_string())
        .filter(|s| !s.is_empty())
        .collect();
    let roots = std::env::var("GEOFACTS_ROOTS").ok();
    let out = if is_test { None } else { std::env::var("GEOFACTS_OUT").ok() };
    let mut cb = Cb { dump, roots, out };
    rustc_driver::run_compiler(&args, &mut cb);
}
