// Minimal JSON value + serializer (the driver has no cargo dependencies).
use std::fmt::Write;

#[derive(Clone, Debug)]
pub enum J {
    Null,
    B(bool),
    I(i128),
    S(String),
    A(Vec<J>),
    O(Vec<(&'static str, J)>),
    M(Vec<(String, J)>),
}

pub fn s<T: Into<String>>(x: T) -> J {
    J::S(x.into())
}

pub fn opt<T>(x: Option<T>, f: impl FnOnce(T) -> J) -> J {
    match x {
        Some(v) => f(v),
        None => J::Null,
    }
}

fn esc(out: &mut String, st: &str) {
    out.push('"');
    for c in st.chars() {
        match c {
            '"' => out.push_str("\\\""),
            '\\' => out.push_str("\\\\"),
            '\n' => out.push_str("\\n"),
            '\r' => out.push_str("\\r"),
            '\t' => out.push_str("\\t"),
            c if (c as u32) < 0x20 => {
                let _ = write!(out, "\\u{:04x}", c as u32);
            }
            c => out.push(c),
        }
    }
    out.push('"');
}

impl J {
    pub fn write(&self, out: &mut String) {
        match self {
            J::Null => out.push_str("null"),
            J::B(b) => out.push_str(if *b { "true" } else { "false" }),
            J::I(i) => {
                let _ = write!(out, "{}", i);
            }
            J::S(st) => esc(out, st),
            J::A(v) => {
                out.push('[');
                for (i, x) in v.iter().enumerate() {
                    if i > 0 {
                        out.push(',');
                    }
                    x.write(out);
                }
                out.push(']');
            }
            J::O(v) => {
                out.push('{');
                for (i, (k, x)) in v.iter().enumerate() {
                    if i > 0 {
                        out.push(',');
                    }
                    esc(out, k);
                    out.push(':');
                    x.write(out);
                }
                out.push('}');
            }
            J::M(v) => {
                out.push('{');
                for (i, (k, x)) in v.iter().enumerate() {
                    if i > 0 {
                        out.push(',');
                    }
                    esc(out, k);
                    out.push(':');
                    x.write(out);
                }
                out.push('}');
            }
        }
    }
}
