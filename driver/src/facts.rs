// Polymorphic facts of the local crate: items (ADTs, impls, traits) and MIR bodies.
use crate::json::{opt, s, J};
use rustc_hir::def::DefKind;
use rustc_hir::def_id::{DefId, LOCAL_CRATE};
use rustc_middle::mir::{
    self, AggregateKind, BasicBlockData, Body, BorrowKind, Const, ConstOperand, Operand, Place,
    ProjectionElem, Rvalue, StatementKind, TerminatorKind, UnwindAction,
};
use rustc_middle::ty::print::with_no_trimmed_paths;
use rustc_middle::ty::{self, GenericArgsRef, Instance, Ty, TyCtxt, TypingEnv};
use rustc_span::Span;

pub fn path(tcx: TyCtxt<'_>, did: DefId) -> String {
    with_no_trimmed_paths!(tcx.def_path_str(did))
}

pub fn key(tcx: TyCtxt<'_>, did: DefId) -> String {
    format!("{}{}", tcx.crate_name(did.krate), tcx.def_path(did).to_string_no_crate_verbose())
}

pub fn ty_s(ty: Ty<'_>) -> String {
    with_no_trimmed_paths!(ty.to_string())
}

pub fn args_j<'tcx>(args: GenericArgsRef<'tcx>) -> J {
    J::A(args.iter().map(|a| s(with_no_trimmed_paths!(a.to_string()))).collect())
}

pub fn span_j(tcx: TyCtxt<'_>, sp: Span) -> J {
    let sm = tcx.sess.source_map();
    let lo = sm.lookup_char_pos(sp.lo());
    let hi = sm.lookup_char_pos(sp.hi());
    let file = match &lo.file.name {
        rustc_span::FileName::Real(r) => match r.local_path() {
            Some(p) => p.display().to_string(),
            None => format!("{:?}", r),
        },
        other => format!("{:?}", other),
    };
    J::O(vec![
        ("file", s(file)),
        ("line", J::I(lo.line as i128)),
        ("line_hi", J::I(hi.line as i128)),
        ("exp", J::B(sp.from_expansion())),
    ])
}

fn line_of(tcx: TyCtxt<'_>, sp: Span) -> i128 {
    // for macro-expanded code report the line of the outermost call site
    let sp = sp.source_callsite();
    tcx.sess.source_map().lookup_char_pos(sp.lo()).line as i128
}

pub struct Cx<'tcx, 'a> {
    pub tcx: TyCtxt<'tcx>,
    pub body: &'a Body<'tcx>,
    pub env: TypingEnv<'tcx>,
}

impl<'tcx, 'a> Cx<'tcx, 'a> {
    fn place(&self, p: &Place<'tcx>) -> J {
        let mut proj = Vec::new();
        for (base, elem) in p.iter_projections() {
            let e = match elem {
                ProjectionElem::Deref => J::A(vec![s("deref")]),
                ProjectionElem::Field(f, fty) => {
                    let bty = base.ty(self.body, self.tcx);
                    let base_adt = match bty.ty.kind() {
                        ty::Adt(adt, _) => s(path(self.tcx, adt.did())),
                        _ => J::Null,
                    };
                    let name = match bty.ty.kind() {
                        ty::Adt(adt, _) => {
                            let v = match bty.variant_index {
                                Some(v) => adt.variant(v),
                                None if adt.is_enum() => {
                                    // should not happen without a downcast
                                    return J::O(vec![("l", J::I(p.local.as_u32() as i128)), ("p", s("?enum-field"))]);
                                }
                                None => adt.non_enum_variant(),
                            };
                            s(v.fields[f].name.to_string())
                        }
                        _ => J::Null,
                    };
                    J::A(vec![s("field"), J::I(f.as_u32() as i128), name, s(ty_s(fty)), base_adt])
                }
                ProjectionElem::Index(l) => J::A(vec![s("index"), J::I(l.as_u32() as i128)]),
                ProjectionElem::ConstantIndex { offset, min_length, from_end } => J::A(vec![
                    s("cindex"),
                    J::I(offset as i128),
                    J::I(min_length as i128),
                    J::B(from_end),
                ]),
                ProjectionElem::Subslice { from, to, from_end } => {
                    J::A(vec![s("subslice"), J::I(from as i128), J::I(to as i128), J::B(from_end)])
                }
                ProjectionElem::Downcast(name, v) => J::A(vec![
                    s("downcast"),
                    J::I(v.as_u32() as i128),
                    opt(name, |n| s(n.to_string())),
                ]),
                ProjectionElem::OpaqueCast(t) => J::A(vec![s("opaque"), s(ty_s(t))]),
                ProjectionElem::UnwrapUnsafeBinder(t) => J::A(vec![s("unwrap_binder"), s(ty_s(t))]),
            };
            proj.push(e);
        }
        J::O(vec![("l", J::I(p.local.as_u32() as i128)), ("p", J::A(proj))])
    }

    pub fn fn_ref(&self, def: DefId, args: GenericArgsRef<'tcx>) -> J {
        let tcx = self.tcx;
        let mut o = vec![
            ("path", s(path(tcx, def))),
            ("key", s(key(tcx, def))),
            ("crate", s(tcx.crate_name(def.krate).to_string())),
            ("args", args_j(args)),
        ];
        if let Some(tr) = tcx.trait_of_assoc(def) {
            o.push(("trait", s(path(tcx, tr))));
            o.push(("method", s(tcx.item_name(def).to_string())));
            if args.len() > 0 {
                if let Some(t0) = args[0].as_type() {
                    o.push(("self_ty", s(ty_s(t0))));
                }
            }
        }
        if let Some(imp) = tcx.impl_of_assoc(def) {
            o.push(("impl_key", s(key(tcx, imp))));
            o.push(("method", s(tcx.item_name(def).to_string())));
        }
        // resolve statically if possible
        let res = std::panic::catch_unwind(std::panic::AssertUnwindSafe(|| {
            Instance::try_resolve(tcx, self.env, def, args)
        }));
        match res {
            Ok(Ok(Some(inst))) => {
                let rd = inst.def_id();
                let kind = format!("{:?}", inst.def);
                let kind = kind.split('(').next().unwrap_or("").to_string();
                o.push((
                    "resolved",
                    J::O(vec![
                        ("path", s(path(tcx, rd))),
                        ("key", s(key(tcx, rd))),
                        ("crate", s(tcx.crate_name(rd.krate).to_string())),
                        ("args", args_j(inst.args)),
                        ("kind", s(kind)),
                    ]),
                ));
            }
            _ => {
                o.push(("resolved", J::Null));
            }
        }
        J::O(o)
    }

    fn constant(&self, c: &ConstOperand<'tcx>) -> J {
        let ty = c.const_.ty();
        if let ty::FnDef(def, args) = ty.kind() {
            return J::O(vec![("fn", self.fn_ref(*def, args))]);
        }
        let mut o = vec![("ty", s(ty_s(ty)))];
        match c.const_ {
            Const::Unevaluated(uv, _) => {
                o.push(("uneval", s(path(self.tcx, uv.def))));
                if let Some(p) = uv.promoted {
                    o.push(("promoted", J::I(p.as_u32() as i128)));
                }
            }
            _ => {}
        }
        if let Some(si) = c.const_.try_to_scalar_int() {
            let size = si.size();
            let bits = si.to_bits(size);
            match ty.kind() {
                ty::Bool => o.push(("val", J::B(bits != 0))),
                ty::Int(_) => {
                    let n = size.bits();
                    let v = if n == 0 {
                        0
                    } else if n >= 128 {
                        bits as i128
                    } else {
                        let shift = 128 - n as u32;
                        ((bits << shift) as i128) >> shift
                    };
                    o.push(("val", J::I(v)));
                }
                ty::Uint(_) => o.push(("val", J::I(bits as i128))),
                ty::Char => o.push(("val", J::I(bits as i128))),
                ty::Float(ft) => {
                    let f = match ft.bit_width() {
                        32 => f32::from_bits(bits as u32) as f64,
                        64 => f64::from_bits(bits as u64),
                        _ => f64::NAN,
                    };
                    o.push(("fval", s(format!("{:?}", f))));
                }
                _ => o.push(("bits", J::I(bits as i128))),
            }
        }
        // a named integer constant without generic parameters (`const BLOCK: usize = 256`): its value, for size-dependent tables
        if let Const::Unevaluated(uv, _) = c.const_ {
            if uv.promoted.is_none() && uv.args.is_empty() && matches!(ty.kind(), ty::Int(_) | ty::Uint(_)) {
                let tcx = self.tcx;
                let env = self.env;
                let cc = c.const_;
                let span = c.span;
                let r = std::panic::catch_unwind(std::panic::AssertUnwindSafe(|| cc.eval(tcx, env, span).ok().and_then(|v| v.try_to_scalar_int())));
                if let Ok(Some(si)) = r {
                    let size = si.size();
                    let bits = si.to_bits(size);
                    let v = match ty.kind() {
                        ty::Int(_) => {
                            let n = size.bits();
                            if n == 0 {
                                0
                            } else if n >= 128 {
                                bits as i128
                            } else {
                                let shift = 128 - n as u32;
                                ((bits << shift) as i128) >> shift
                            }
                        }
                        _ => bits as i128,
                    };
                    o.push(("uval", J::I(v)));
                }
            }
        }
        o.push(("text", s(with_no_trimmed_paths!(c.const_.to_string()))));
        J::O(o)
    }

    fn operand(&self, op: &Operand<'tcx>) -> J {
        match op {
            Operand::Copy(p) => J::O(vec![("copy", self.place(p))]),
            Operand::Move(p) => J::O(vec![("move", self.place(p))]),
            Operand::Constant(c) => J::O(vec![("const", self.constant(c))]),
            other => J::O(vec![("other", s(format!("{:?}", other)))]),
        }
    }

    fn rvalue(&self, rv: &Rvalue<'tcx>) -> J {
        let tcx = self.tcx;
        match rv {
            Rvalue::Use(op, ..) => J::A(vec![s("use"), self.operand(op)]),
            Rvalue::CopyForDeref(p) => J::A(vec![s("use"), J::O(vec![("copy", self.place(p))])]),
            Rvalue::Ref(_, bk, p) => {
                let k = match bk {
                    BorrowKind::Shared => "shared",
                    BorrowKind::Fake(_) => "fake",
                    BorrowKind::Mut { .. } => "mut",
                };
                J::A(vec![s("ref"), s(k), self.place(p)])
            }
            Rvalue::RawPtr(k, p) => J::A(vec![s("rawptr"), s(format!("{:?}", k)), self.place(p)]),
            Rvalue::BinaryOp(op, ab) => {
                let (a, b) = &**ab;
                let aty = a.ty(self.body, tcx);
                J::A(vec![s("bin"), s(format!("{:?}", op)), self.operand(a), self.operand(b), s(ty_s(aty))])
            }
            Rvalue::UnaryOp(op, a) => {
                let aty = a.ty(self.body, tcx);
                J::A(vec![s("un"), s(format!("{:?}", op)), self.operand(a), s(ty_s(aty))])
            }
            Rvalue::Cast(k, op, ty) => {
                let kk = format!("{:?}", k);
                let fty = op.ty(self.body, tcx);
                J::A(vec![s("cast"), s(kk), self.operand(op), s(ty_s(*ty)), s(ty_s(fty))])
            }
            Rvalue::Discriminant(p) => {
                let pty = p.ty(self.body, tcx).ty;
                J::A(vec![s("discr"), self.place(p), s(ty_s(pty))])
            }
            Rvalue::Aggregate(kind, ops) => {
                let k = match &**kind {
                    AggregateKind::Array(t) => J::O(vec![("array", s(ty_s(*t)))]),
                    AggregateKind::Tuple => J::O(vec![("tuple", J::B(true))]),
                    AggregateKind::Adt(did, vi, args, _, active) => {
                        let adt = tcx.adt_def(*did);
                        let v = adt.variant(*vi);
                        J::O(vec![
                            ("adt", s(path(tcx, *did))),
                            ("variant", J::I(vi.as_u32() as i128)),
                            ("vname", s(v.name.to_string())),
                            ("fields", J::A(v.fields.iter().map(|f| s(f.name.to_string())).collect())),
                            ("args", args_j(args)),
                            ("union_field", opt(*active, |f| J::I(f.as_u32() as i128))),
                        ])
                    }
                    AggregateKind::Closure(did, args) => {
                        J::O(vec![("closure", s(path(tcx, *did))), ("key", s(key(tcx, *did))), ("args", args_j(args))])
                    }
                    AggregateKind::Coroutine(did, _) | AggregateKind::CoroutineClosure(did, _) => {
                        J::O(vec![("coroutine", s(path(tcx, *did)))])
                    }
                    AggregateKind::RawPtr(t, _) => J::O(vec![("rawptr", s(ty_s(*t)))]),
                };
                J::A(vec![s("agg"), k, J::A(ops.iter().map(|o| self.operand(o)).collect())])
            }
            Rvalue::Repeat(op, n) => J::A(vec![s("repeat"), self.operand(op), s(with_no_trimmed_paths!(n.to_string()))]),
            Rvalue::ThreadLocalRef(did) => J::A(vec![s("tls"), s(path(tcx, *did))]),
            other => J::A(vec![s("other"), s(format!("{:?}", other))]),
        }
    }

    fn unwind(&self, u: &UnwindAction) -> J {
        match u {
            UnwindAction::Cleanup(bb) => J::I(bb.as_u32() as i128),
            _ => J::Null,
        }
    }

    fn block(&self, bb: &BasicBlockData<'tcx>) -> J {
        let tcx = self.tcx;
        let mut stmts = Vec::new();
        for st in &bb.statements {
            let line = line_of(tcx, st.source_info.span);
            match &st.kind {
                StatementKind::Assign(b) => {
                    let (p, rv) = &**b;
                    stmts.push(J::A(vec![s("assign"), self.place(p), self.rvalue(rv), J::I(line)]));
                }
                StatementKind::SetDiscriminant { place, variant_index } => {
                    stmts.push(J::A(vec![
                        s("setdiscr"),
                        self.place(place),
                        J::I(variant_index.as_u32() as i128),
                        J::I(line),
                    ]));
                }
                StatementKind::Intrinsic(i) => {
                    stmts.push(J::A(vec![s("intrinsic"), s(format!("{:?}", i)), J::I(line)]));
                }
                _ => {}
            }
        }
        let term = bb.terminator();
        let tline = line_of(tcx, term.source_info.span);
        let texp = term.source_info.span.from_expansion();
        let t = match &term.kind {
            TerminatorKind::Goto { target } => J::O(vec![("k", s("goto")), ("t", J::I(target.as_u32() as i128))]),
            TerminatorKind::SwitchInt { discr, targets } => {
                let dty = discr.ty(self.body, tcx);
                let mut ts = Vec::new();
                for (v, bb) in targets.iter() {
                    ts.push(J::A(vec![J::I(v as i128), J::I(bb.as_u32() as i128)]));
                }
                J::O(vec![
                    ("k", s("switch")),
                    ("discr", self.operand(discr)),
                    ("ty", s(ty_s(dty))),
                    ("targets", J::A(ts)),
                    ("otherwise", J::I(targets.otherwise().as_u32() as i128)),
                    ("line", J::I(tline)),
                ])
            }
            TerminatorKind::Return => J::O(vec![("k", s("return")), ("line", J::I(tline))]),
            TerminatorKind::Unreachable => J::O(vec![("k", s("unreachable"))]),
            TerminatorKind::UnwindResume => J::O(vec![("k", s("resume"))]),
            TerminatorKind::UnwindTerminate(_) => J::O(vec![("k", s("terminate"))]),
            TerminatorKind::Drop { place, target, unwind, .. } => J::O(vec![
                ("k", s("drop")),
                ("place", self.place(place)),
                ("t", J::I(target.as_u32() as i128)),
                ("unwind", self.unwind(unwind)),
            ]),
            TerminatorKind::Call { func, args, destination, target, unwind, fn_span, .. } => {
                let f = match func {
                    Operand::Constant(c) => self.constant(c),
                    other => J::O(vec![("indirect", self.operand(other)), ("ty", s(ty_s(other.ty(self.body, tcx))))]),
                };
                J::O(vec![
                    ("k", s("call")),
                    ("func", f),
                    ("args", J::A(args.iter().map(|a| self.operand(&a.node)).collect())),
                    ("arg_tys", J::A(args.iter().map(|a| s(ty_s(a.node.ty(self.body, tcx)))).collect())),
                    ("dest", self.place(destination)),
                    ("dest_ty", s(ty_s(destination.ty(self.body, tcx).ty))),
                    ("t", opt(*target, |t| J::I(t.as_u32() as i128))),
                    ("unwind", self.unwind(unwind)),
                    ("line", J::I(line_of(tcx, *fn_span))),
                    ("exp", J::B(texp)),
                ])
            }
            TerminatorKind::TailCall { func, args, .. } => J::O(vec![
                ("k", s("tailcall")),
                ("func", self.operand(func)),
                ("args", J::A(args.iter().map(|a| self.operand(&a.node)).collect())),
            ]),
            TerminatorKind::Assert { cond, expected, msg, target, unwind } => J::O(vec![
                ("k", s("assert")),
                ("cond", self.operand(cond)),
                ("expected", J::B(*expected)),
                ("msg", s(format!("{:?}", msg).chars().take(60).collect::<String>())),
                ("t", J::I(target.as_u32() as i128)),
                ("unwind", self.unwind(unwind)),
                ("line", J::I(tline)),
            ]),
            TerminatorKind::FalseEdge { real_target, .. } => {
                J::O(vec![("k", s("goto")), ("t", J::I(real_target.as_u32() as i128))])
            }
            TerminatorKind::FalseUnwind { real_target, .. } => {
                J::O(vec![("k", s("goto")), ("t", J::I(real_target.as_u32() as i128))])
            }
            other => J::O(vec![("k", s("other")), ("text", s(format!("{:?}", other).chars().take(80).collect::<String>()))]),
        };
        J::O(vec![("s", J::A(stmts)), ("t", t), ("cleanup", J::B(bb.is_cleanup))])
    }

    pub fn body_json(&self) -> Vec<(&'static str, J)> {
        let body = self.body;
        let locals: Vec<J> = body.local_decls.iter().map(|d| s(ty_s(d.ty))).collect();
        let mut names = Vec::new();
        for vdi in &body.var_debug_info {
            if let mir::VarDebugInfoContents::Place(p) = &vdi.value {
                names.push(J::A(vec![s(vdi.name.to_string()), self.place(p)]));
            }
        }
        let blocks: Vec<J> = body.basic_blocks.iter().map(|b| self.block(b)).collect();
        vec![
            ("arg_count", J::I(body.arg_count as i128)),
            ("locals", J::A(locals)),
            ("names", J::A(names)),
            ("blocks", J::A(blocks)),
        ]
    }
}

fn impl_of_json<'tcx>(tcx: TyCtxt<'tcx>, did: DefId) -> J {
    // walk up through closures to the enclosing associated item
    let mut cur = did;
    loop {
        if let Some(imp) = tcx.impl_of_assoc(cur) {
            let self_ty = tcx.type_of(imp).instantiate_identity().skip_norm_wip();
            let mut o = vec![("impl_key", s(key(tcx, imp))), ("self_ty", s(ty_s(self_ty)))];
            if let Some(tr) = tcx.impl_opt_trait_ref(imp) {
                let tr = tr.instantiate_identity().skip_norm_wip();
                o.push(("trait", s(path(tcx, tr.def_id))));
                o.push(("trait_ref", s(with_no_trimmed_paths!(tr.to_string()))));
                o.push(("trait_args", args_j(tr.args)));
            } else {
                o.push(("trait", J::Null));
            }
            return J::O(o);
        }
        if let Some(tr) = tcx.trait_of_assoc(cur) {
            return J::O(vec![("trait_default", s(path(tcx, tr)))]);
        }
        match tcx.opt_parent(cur) {
            Some(p) if matches!(tcx.def_kind(cur), DefKind::Closure | DefKind::InlineConst | DefKind::AnonConst) => cur = p,
            _ => return J::Null,
        }
    }
}

fn vis_s(tcx: TyCtxt<'_>, did: DefId) -> String {
    match tcx.visibility(did) {
        ty::Visibility::Public => "pub".to_string(),
        ty::Visibility::Restricted(m) => {
            if m.is_crate_root() {
                "crate".to_string()
            } else {
                format!("in:{}", path(tcx, m))
            }
        }
    }
}

pub fn dump_crate<'tcx>(tcx: TyCtxt<'tcx>) -> J {
    let krate = tcx.crate_name(LOCAL_CRATE).to_string();
    let mut fns: Vec<J> = Vec::new();
    let mut n_skipped = 0;
    for &ldid in tcx.mir_keys(()) {
        let did = ldid.to_def_id();
        let kind = tcx.def_kind(did);
        let body: &Body<'tcx> = match kind {
            DefKind::Fn | DefKind::AssocFn | DefKind::Closure => {
                if !tcx.is_mir_available(did) {
                    n_skipped += 1;
                    continue;
                }
                tcx.optimized_mir(did)
            }
            DefKind::Static { .. } | DefKind::Const { .. } | DefKind::AssocConst { .. } => tcx.mir_for_ctfe(did),
            _ => continue,
        };
        let env = TypingEnv::post_analysis(tcx, did);
        let cx = Cx { tcx, body, env };
        let mut o = vec![
            ("path", s(path(tcx, did))),
            ("key", s(key(tcx, did))),
            ("kind", s(format!("{:?}", kind).split(|c| c == ' ' || c == '{').next().unwrap_or("").to_string())),
            ("span", span_j(tcx, tcx.def_span(did))),
            ("impl_of", impl_of_json(tcx, did)),
            ("parent", opt(tcx.opt_parent(did), |p| s(key(tcx, p)))),
            ("module", s(path(tcx, tcx.parent_module_from_def_id(ldid).to_def_id()))),
        ];
        if matches!(kind, DefKind::Fn | DefKind::AssocFn) {
            o.push(("vis", s(vis_s(tcx, did))));
            o.push(("name", s(tcx.item_name(did).to_string())));
            let sig = tcx.fn_sig(did).instantiate_identity().skip_norm_wip();
            o.push(("sig", s(with_no_trimmed_paths!(sig.to_string()))));
            o.push(("unsafe_fn", J::B(sig.safety().is_unsafe())));
            let generics = tcx.generics_of(did);
            let mut gs = Vec::new();
            let mut g = Some(generics);
            while let Some(gg) = g {
                for p in &gg.own_params {
                    gs.push(J::A(vec![J::I(p.index as i128), s(p.name.to_string())]));
                }
                g = gg.parent.map(|p| tcx.generics_of(p));
            }
            o.push(("generics", J::A(gs)));
            let preds = tcx.predicates_of(did).instantiate_identity(tcx);
            o.push(("preds", J::A(preds.predicates.iter().map(|p| s(with_no_trimmed_paths!(p.skip_norm_wip().to_string()))).collect())));
        }
        o.extend(cx.body_json());
        // promoted bodies
        if matches!(kind, DefKind::Fn | DefKind::AssocFn | DefKind::Closure) {
            let proms = tcx.promoted_mir(did);
            let mut pj = Vec::new();
            for pb in proms.iter() {
                let pcx = Cx { tcx, body: pb, env };
                pj.push(J::O(pcx.body_json()));
            }
            o.push(("promoted", J::A(pj)));
        }
        fns.push(J::O(o));
    }

    // items
    let mut adts = Vec::new();
    let mut impls = Vec::new();
    let mut traits = Vec::new();
    for ldid in tcx.hir_crate_items(()).definitions() {
        let did = ldid.to_def_id();
        match tcx.def_kind(did) {
            DefKind::Struct | DefKind::Enum | DefKind::Union => {
                let adt = tcx.adt_def(did);
                let mut vs = Vec::new();
                let discrs: Vec<String> = if adt.is_enum() {
                    adt.discriminants(tcx).map(|(_, d)| d.to_string()).collect()
                } else {
                    Vec::new()
                };
                for (vi, v) in adt.variants().iter().enumerate() {
                    let mut fs = Vec::new();
                    for f in &v.fields {
                        let fty = tcx.type_of(f.did).instantiate_identity().skip_norm_wip();
                        let vis = match f.vis {
                            ty::Visibility::Public => "pub".to_string(),
                            ty::Visibility::Restricted(m) => {
                                if m.is_crate_root() {
                                    "crate".to_string()
                                } else {
                                    format!("in:{}", path(tcx, m))
                                }
                            }
                        };
                        fs.push(J::O(vec![("name", s(f.name.to_string())), ("ty", s(ty_s(fty))), ("vis", s(vis))]));
                    }
                    let dv = discrs.get(vi).cloned().unwrap_or_else(|| vi.to_string());
                    vs.push(J::O(vec![("name", s(v.name.to_string())), ("fields", J::A(fs)), ("discr", s(dv))]));
                }
                adts.push(J::O(vec![
                    ("path", s(path(tcx, did))),
                    ("key", s(key(tcx, did))),
                    ("kind", s(format!("{:?}", tcx.def_kind(did)))),
                    ("vis", s(vis_s(tcx, did))),
                    ("variants", J::A(vs)),
                    ("span", span_j(tcx, tcx.def_span(did))),
                ]));
            }
            DefKind::Impl { of_trait } => {
                let self_ty = tcx.type_of(did).instantiate_identity().skip_norm_wip();
                let mut o = vec![
                    ("key", s(key(tcx, did))),
                    ("self_ty", s(ty_s(self_ty))),
                    ("span", span_j(tcx, tcx.def_span(did))),
                    ("module", s(path(tcx, tcx.parent_module_from_def_id(ldid).to_def_id()))),
                ];
                if of_trait {
                    let tr = tcx.impl_trait_ref(did).instantiate_identity().skip_norm_wip();
                    o.push(("trait", s(path(tcx, tr.def_id))));
                    o.push(("trait_ref", s(with_no_trimmed_paths!(tr.to_string()))));
                    o.push(("trait_args", args_j(tr.args)));
                } else {
                    o.push(("trait", J::Null));
                }
                let mut items = Vec::new();
                for &it in tcx.associated_item_def_ids(did) {
                    let ai = tcx.associated_item(it);
                    let mut io = vec![
                        ("name", s(tcx.opt_item_name(it).map(|n| n.to_string()).unwrap_or_default())),
                        ("key", s(key(tcx, it))),
                        ("path", s(path(tcx, it))),
                        ("kind", s(format!("{:?}", tcx.def_kind(it)))),
                    ];
                    if matches!(tcx.def_kind(it), DefKind::AssocTy) {
                        let t = tcx.type_of(it).instantiate_identity().skip_norm_wip();
                        io.push(("ty", s(ty_s(t))));
                    }
                    items.push(J::O(io));
                }
                o.push(("items", J::A(items)));
                impls.push(J::O(o));
            }
            DefKind::Trait => {
                let mut items = Vec::new();
                for &it in tcx.associated_item_def_ids(did) {
                    let ai = tcx.associated_item(it);
                    items.push(J::O(vec![
                        ("name", s(tcx.opt_item_name(it).map(|n| n.to_string()).unwrap_or_default())),
                        ("key", s(key(tcx, it))),
                        ("kind", s(format!("{:?}", tcx.def_kind(it)))),
                        ("has_default", J::B(ai.defaultness(tcx).has_value())),
                    ]));
                }
                traits.push(J::O(vec![("path", s(path(tcx, did))), ("key", s(key(tcx, did))), ("items", J::A(items))]));
            }
            _ => {}
        }
    }

    // cargo features in effect (from --cfg feature="..")
    let mut feats = Vec::new();
    for (name, val) in tcx.sess.config.iter() {
        if name.as_str() == "feature" {
            if let Some(v) = val {
                feats.push(s(v.to_string()));
            }
        }
    }
    let dbg = tcx.sess.opts.debug_assertions;

    J::O(vec![
        ("crate", s(krate)),
        ("features", J::A(feats)),
        ("debug_assertions", J::B(dbg)),
        ("skipped_no_mir", J::I(n_skipped)),
        ("adts", J::A(adts)),
        ("impls", J::A(impls)),
        ("traits", J::A(traits)),
        ("fns", J::A(fns)),
    ])
}
